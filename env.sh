# sourced by the driver and by humans: offline Go environment for the harness
T=/root/go/pkg/mod/golang.org/toolchain@v0.0.1-go1.25.7.linux-amd64
if [ -x "$T/bin/go" ]; then GO="$T/bin/go"; elif [ -x /opt/veriftools/go1.26.8/bin/go ]; then GO=/opt/veriftools/go1.26.8/bin/go; else GO=go; fi
export GO GOTOOLCHAIN=local GOFLAGS=-mod=mod GOPROXY=off GOSUMDB=off
