#!/bin/sh
# Offline set-up: compile the harness (and so warm the Go build cache). Everything comes from
# files on disk: /repo (replace target), the module cache, and the cached Go toolchain.
set -e
cd "$(dirname "$0")"
. ./env.sh
export GOCACHE="${VERIF_SCRATCH:-/var/tmp}/verif-gocache"
mkdir -p "$GOCACHE"
cd harness
"$GO" vet -tags verif ./... >/dev/null 2>&1 || true
"$GO" test -c -tags verif -o /dev/null ./checks/
echo "setup ok: $("$GO" version)"
