#!/bin/sh
# Runs the repository's own test suite with the `verif` build tag OFF (hooks compiled out).
cd /repo || exit 2
rc=0
for m in . ./storage/bsadapter ./storage/bsrvadapter ./storage/dsadapter; do
  (cd "$m" && go test -mod=mod -json -vet=off -count=1 -timeout 25m ./...) || rc=1
done
exit $rc
