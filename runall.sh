#!/bin/sh
# Runs every claimed check's quick (or given) tier in sequence; prints one line per property.
cd "$(dirname "$0")"
tier="${1:-quick}"
rc=0
for p in $(python3 -c "import json;print(' '.join(c['property_id'] for c in json.load(open('MANIFEST.json'))['checks']))" 2>/dev/null); do
  out=$(./check "$p" --tier "$tier" 2>&1)
  code=$?
  echo "$out" | grep -E "^(VIOLATION|$p $tier)" | tail -3
  [ $code -ne 0 ] && { echo "  -> $p exit $code"; rc=1; }
done
exit $rc
