#!/usr/bin/env python3
"""Regenerates MANIFEST.json from the table below (single source of truth for what is claimed)."""
import json, os, subprocess

CLAIMS = {
 "C20": dict(
   category="exploration", design_ref="DESIGN.md §5 C20",
   technique="generated concurrent workloads (rapid draws the per-goroutine operation sequences, GOMAXPROCS and yield points) on shared objects under the Go race detector, with every goroutine's results compared with sequentially pre-computed results",
   text="Objects are created once and shared: nodes of every implementation with their representation views, plain and reader-backed bytes nodes, a compiled selector, a traversal Config and LinkSystem over a read-only store, a type system, bindnode and generated prototypes, the default codec registry. 2-24 goroutines then run drawn sequences of read-only operations (reads, DeepEqual, Copy, encode, ComputeLink, Load/LoadRaw, WalkAdv/WalkMatching/Get with the shared selector and Config, building from shared prototypes, Wrap/Prototype with explicit and inferred schemas, registry look-ups, schema type methods, selector compilation). The binary is built with -race: any race report fails the run; every result must equal the sequential expectation; no goroutine may panic.",
   note="Schedules are sampled, not enumerated: the race detector makes data races largely independent of the interleaving that happened, but atomicity violations without a race need the bad interleaving to occur. Failures are not deterministically replayable; the replay file is the operation matrix plus the race report."),
 "C19": dict(
   category="exploration", design_ref="DESIGN.md §5 C19",
   technique="property-based testing (rapid): Go types assembled with reflect from the supported shape vocabulary for generated schemas, an independent reflection walk as oracle, Wrap/Prototype/Unwrap/Marshal/Unmarshal round trips, an integer-range table, and generated histories of binding calls on named types with inferred schemas",
   text="For generated schemas and values a user-supplied Go type is built with reflect in a drawn variation (every signed/unsigned width per Int position, float32/float64, three link types, pointers for optional/nullable, double pointers for both, nil-able slices as optionals, ordered-map structs, union structs, string- and int-backed enums, Node for Any). An independent reflection walk defines the data the Go value holds: Wrap must read exactly as it (both levels), nodes built through the prototype must Unwrap to a Go value holding the assembled data, Unmarshal(Marshal(v)) into a fresh value must hold the same data; integers outside a narrow Go type's range must be refused. Histories of Wrap/Prototype/Marshal/Unmarshal with inferred and explicit schemas over named types that share nested types must all succeed with equivalent results.",
   note="Trusted: the reflection walk in harness/gobind. nil and empty slices are the same data; a present-but-empty list in an optional field bound to a bare slice is not generated (Go cannot represent the difference); uint64 beyond int64 is not generated directly inside kinded unions. Inference covers the shapes bindnode documents (no pointers, unions, enums)."),
 "C13": dict(
   category="exploration", design_ref="DESIGN.md §5 C13",
   technique="differential testing over generated programs: schemas drawn by the schema generator are turned into fresh Go packages with gengo.Generate from the working tree, compiled, and a rapid-driven lock-step test (dropped into each package) compares the generated engine with bindnode and with the reference views/conformance parser on generated inputs",
   text="Type systems within the generator's documented feature set (plus fixed regression specs; both union memory layouts) are generated afresh, must compile, and inside each package the tree of a conforming value with 0-3 local mutations is offered at type and representation level, by assembler calls in drawn styles, strict/relaxed DAG-CBOR and DAG-JSON, to the generated prototype and to bindnode.Prototype of the same type: accept/reject must agree (and agree with the reference parser), accepted nodes must satisfy the reference type and representation views on both engines (full self-consistency reader) and encode to identical bytes.",
   note="Trusted: go build; reference views/parser. Bounded to schemas of ≤7 named types; enums, listpairs, Any and implicit values are outside the generator's feature set. The empty stringprefix delimiter (a Go API artefact) is not generated for the code generator."),
 "C08": dict(
   category="exploration", design_ref="DESIGN.md §5 C08, Appendix B",
   technique="property-based testing (rapid) over generated schemas × typed values against reference typeView/reprView functions written from the schema spec; two build routes; encode/decode fixpoint against the reference DAG-CBOR encoder; also compiled into the generated-code differential harness (C13)",
   text="Generated acyclic schemas (structs with map/tuple/stringjoin/listpairs representation incl. renames and optional/nullable/both fields, unions keyed/kinded/stringprefix, enums string/int, typed maps and lists with nullable values, links, Any) and generated inhabitants are built through the type-level builder from the reference type view and through the representation builder from the reference representation view; both nodes must read (full self-consistency reader, wrong-kind checks included) as exactly the two reference views; the encoded representation must equal the reference encoding of the representation view and decode back, through the representation builder, to the same views and bytes. Engines: bindnode with inferred Go types here; generated code under C13 with the same oracle; user-supplied Go types under C19.",
   note="Trusted: the reference views (harness/tschema). Values without a representation (non-trailing absent tuple fields, delimiter inside stringjoin parts) are not generated; implicit values are unsupported by both engines. One known finding (Any as a direct union member) is steered around."),
 "C09": dict(
   category="exploration", design_ref="DESIGN.md §5 C09, Appendix B",
   technique="property-based testing (rapid): conforming data-model trees and their local mutations fed to typed builders directly and through DAG-CBOR (strict, relaxed) and DAG-JSON, decided by an independent reference conformance parser (accept ⇔ conforms, no panic, accepted node = denoted value)",
   text="For generated schemas, at type and representation level, the tree of a conforming value is mutated 0-3 times (drop / duplicate / rename entry, retype, swap, nullify, extra element, delimiter-bearing string tweaks, substitution of schema vocabulary such as type-level names where the representation renames) and offered to the typed builder as assembler calls, as strict DAG-CBOR, as relaxed DAG-CBOR (which passes duplicate keys on to the builder) and as DAG-JSON text. The builder must accept exactly when the reference parser says the tree conforms, must never panic, and an accepted node must read as the denoted value at both levels. bindnode here; generated code under C13.",
   note="Trusted: the reference parser (harness/tschema.Parse). Undecided inputs (null or >int64 ints inside Any) are classified and skipped."),
 "C11": dict(
   category="exploration", design_ref="DESIGN.md §5 C11",
   technique="stateful property-based testing (rapid): generated histories of node-producing and potentially mutating API calls over a table of tracked nodes, with a snapshot invariant checked after every step",
   text="Histories of up to 30 operations produce nodes through builders of every implementation and call program, decoders (whose input buffer is then overwritten), reader-backed bytes nodes, subset and plain selector matches, walks, FocusedTransform, Copy, embedding in new containers that are extended afterwards, root AssignNode followed by Reset and reuse, and Reset/reuse of producing builders; interleaved with full, partial and repeated reads, AsLargeBytes readers used concurrently with seeks, and encoding. After every operation every tracked node is read twice and must equal the snapshot taken when it was finished.",
   note="Trusted: the plain reader and value model. Caller-owned byte slices are copied before being handed in and never written afterwards (the documented exclusion)."),
 "C12": dict(
   category="exploration", design_ref="DESIGN.md §5 C12",
   technique="model-based protocol testing (rapid): generated legal assembler call sequences with injected repeated keys and kind-inappropriate assignments; the model predicts every call's outcome and the final node",
   text="For drawn values the legal call sequence (size hints, entry styles, foreign AssignNode) is replayed on generic and reflection-bound builders; before drawn entries of drawn maps a repeated key is supplied through AssembleEntry, key AssignString or key AssignNode and must be answered with a repeated-key error (matched by type), after which the sequence continues and the built node must be exactly the accepted entries in order; a kind-inappropriate first call on a fresh kind-specific builder must return an error; Reset and reuse must yield the second value and leave the first node intact. Typed struct/union/tuple builders are driven the same way from generated schemas under C09/C13.",
   note="Misuse orders (value before key, use after finish) are never generated: the contract allows them to panic. After a rejected value (as opposed to key) nothing further is asserted."),
 "C10": dict(
   category="exploration", design_ref="DESIGN.md §5 C10",
   technique="property-based robustness testing (rapid) plus native coverage-guided fuzzing (go test -fuzz) of every untrusted-input entry point, with measured oracles: recovered panics, watchdog for termination, a counting proxy assembler for nesting depth and size hints, runtime allocation delta against K·(budget+input)",
   text="Generated and hostile byte strings (length claims up to 2^64 on every major type, nesting ramps, token soup, mutated valid encodings, digit runs, huge exponents, lone surrogates) go to the dag-cbor, cbor, dag-json, json and raw decoders under every combination of depth limit, allocation budget, preallocation cap, relaxed, links, parse-bytes and stop-at-end, into generic, kind-specific, proxy and reflection-bound assemblers. Every call must return a result or an error (no panic, 10 s watchdog), never nest deeper than MaxDepth, never pass a size hint above the cap, and never allocate more than 1 MiB + 512 B·(budget + input length). Selector specs from an unconstrained generator (extreme integers, degenerate recursion) must compile or be rejected within an allocation bound, and every compiled selector must walk (three walk functions) without panic or hang. ParsePath and all path accessors on arbitrary strings. Thorough adds three native fuzz targets with the same oracles inside.",
   note="The allocation bound is a measured inequality with a fixed constant (≥2.5× head-room on the unchanged tree): regressions that stay inside it are not noticed. Wall-clock is only a last-resort non-termination alarm (10 s for ≤4 KiB inputs). Native fuzzing cannot be pinned to a seed; its failing inputs are saved as ordinary replay cases."),
 "C17": dict(
   category="exploration", design_ref="DESIGN.md §5 C17",
   technique="model-based testing over generated operation histories (rapid) against a model map, with an outside-tree snapshot and a hook-recorded list of every path handed to the OS for containment",
   text="Histories of put / put-stream / put-vec / re-put / has / get / get-stream / peek (methods and feature-detecting package functions) over key tables mixing real CID binaries with hostile byte strings (NUL, slashes, dot-dot, '.temp', 300-byte, high bytes, shared shard suffixes) run against memstore, cidlink.Memory and fsstore with default and custom escaping × sharding; a model map decides every result and a final scan reads every key through every read form; the caller's buffer is overwritten after each put. For fsstore the directory tree outside the base is compared after every operation and, through the verif hook, every path given to the OS must lie under the base.",
   note="Trusted: Linux filesystem, the model map. Accepted outcomes: a put refused cleanly (name too long) leaves the key absent; Has may report such a key through an error. The empty key is fsstore's documented abort sentinel and is not used as a key."),
 "C18": dict(
   category="fault_enumeration", design_ref="DESIGN.md §5 C18, Appendix D",
   technique="fault enumeration through build-tagged hook points: every hook point of each generated scenario × {simulated crash, injected error}, checked by reopening the directory with a new store; plus race-detector runs of concurrent writers/readers with injected yields and (thorough) real SIGKILL trials of a child process",
   text="For generated scenarios (fresh / existing shard directory, re-put, chunked stream, abandoned stream, abort with the empty key, write error, cancelled context; drawn keys, sizes, escaping, sharding) the operation is first run to record its hook points, then re-run once per hook point and fault kind: the hook panics (all in-memory state abandoned) or returns an error. A new Store opened on the directory must then find every committed key complete, the in-flight key absent or complete, no partial self-describing blob outside the staging area, and fresh puts/gets working. Concurrent writers and readers (race detector on) must only see absent or complete content. Thorough adds hundreds of real SIGKILLs of a writing child process.",
   note="Crash points are at hook granularity (between library-level filesystem calls), not instruction granularity; power loss / fsync ordering is outside the property. Schedules of the concurrent part are sampled. Hooks: /repo commit 'hook: verif-tagged ...' (add-only, no-op without the tag)."),
 "C16": dict(
   category="exploration", design_ref="DESIGN.md §5 C16",
   technique="model-based testing (rapid): generated sequences of FocusedTransforms and selector-driven WalkTransforming over generated linked graphs, compared with a reference pure functional update / top-down replacement on the abstract graph, with separate read and write stores and input snapshots",
   text="Sequences of 1-4 focused transforms (replace / identity / remove; existing positions, new keys, list append, missing parents with and without createParents, targets below links, error targets) are applied through FocusedTransform and through a reference update on the abstract graph that also computes the new content addresses: results must be equal including every link, every callback must see the node at the target with the target's path, updated blocks must be in the write store and nothing else, the input node and the read store must be unchanged, errors must occur exactly where the reference fails. WalkTransforming with generated selectors must hand exactly the matched nodes to the function and return the reference replacement (one known finding: crossed blocks are inlined).",
   note="Trusted: reference update (harness/graph/update.go) and reference transform (refsel.Transform). Excluded where the contract is silent: removal/identity of absent targets, '-1' as list segment, list append with tail without createParents, subset matchers in transforms, null roots, LinkVisitOnlyOnce/SkipMe during transforms."),
 "C07": dict(
   category="exploration", design_ref="DESIGN.md §5 C07, Appendix A",
   technique="differential testing (rapid) of generated selector ASTs × generated linked block graphs against an independent reference interpreter of the selector semantics (thread-set big-step formulation), for WalkAdv and WalkMatching, three compilation routes",
   text="Selector ASTs over every clause kind (matcher, subset matcher, all, fields, index, range, union, recursion with depth limits / edges / stop-at) are compiled from spec data, through the builder package and from JSON text, and walked over generated graphs of linked blocks (shared and repeated links). The ordered list of (path, reason, value) visits, the ordered list of block loads, and the matching-only walk must equal what a reference interpreter, written in a deliberately different style (no derived selectors), computes on the abstract graph.",
   note="Trusted: the reference interpreter (harness/refsel) and graph model. Generator constraints where the selector spec is silent are listed in DESIGN Appendix A (same-depth edges per recursion, stop-at only with limit none, canonical numeric field names); those corners are exercised for totality under C10 only."),
 "C14": dict(
   category="exploration", design_ref="DESIGN.md §5 C14",
   technique="property-based testing (rapid): every visit of an explore-all walk over generated graphs is re-resolved by Get, Focus and stepwise LookupBySegment and compared with the abstract graph's resolution; generated arbitrary paths for error/no-error agreement; path/string round trip and value semantics of Path",
   text="For generated graphs (keys incl. empty, slash, NUL, numeric-looking) every position reachable by an explore-all recursive walk through links is resolved again from the root by Get, Focus (Progress.Path checked) and one LookupBySegment per segment with links loaded through the same LinkSystem, using the walk's own path object, the path rebuilt from strings and its re-parsed string form; all must equal the visited node and the abstract resolution. Drawn arbitrary paths must fail exactly when the abstract resolution fails (non-canonical numeric list segments: only agreement is required). Path String/ParsePath round-trips and Append/Join/Truncate/Shift never alias.",
   note="Trusted: abstract graph resolution. Blocks that are bare links are not generated (a walk visits them as links while Get dereferences again)."),
 "C15": dict(
   category="exploration", design_ref="DESIGN.md §5 C15",
   technique="metamorphic testing (rapid): each traversal control applied alone to generated (graph, selector) pairs and compared with the prefix / suffix / subsequence / subtree-removal of the unrestricted walk; all budget values and all start paths enumerated per pair",
   text="Against the unrestricted WalkAdv of each generated pair: NodeBudget=N for every N in 0..V+1 must give exactly the first min(N,V) visits and ErrBudgetExceeded iff N<V; LinkBudget likewise for loads and the visits before the first refused load; StartAtPath for every visited path must give exactly the tail of the visit sequence and load exactly the ancestors of the start point plus the blocks from it on; LinkVisitOnlyOnce must load each link at most once and visit the unrestricted sequence minus the subtrees below repeated links; a SkipMe loader must remove exactly the skipped blocks' subtrees.",
   note="Trusted: reference interpreter for the once/skip expectations; no preloader (documented as approximate)."),
 "C05": dict(
   category="exploration", design_ref="DESIGN.md §5 C05",
   technique="model-based testing over generated operation histories (rapid): model map (prototype,value)->link, independent hash + hand-built CID construction, reference DAG-CBOR bytes, load = stored value",
   text="Histories of store/compute/load/loadraw/loadplusraw/fill on one link system (default registry, or a private one with a dag-pb alias for CIDv0) and storage (memstore, cidlink.Memory; the filesystem store is exercised under C17/C18) with values per codec domain, every codec, 10 hash functions, full/truncated digests, several node implementations and insertion orders. Store and ComputeLink must agree, repeat the same link for the same (prototype, value) whatever the history, equal the independently constructed CID of the stored bytes (and of the reference DAG-CBOR bytes), and every load form must return the stored value and bytes that hash to the link.",
   note="Trusted: stdlib crypto for the independent digests, hand-built CID layout, reference encoder. Truncated digests shorter than 8 bytes are excluded from histories (real collisions would make 'load returns the stored value' undefined); they are covered in C06."),
 "C06": dict(
   category="fault_enumeration", design_ref="DESIGN.md §5 C06",
   technique="fault enumeration over generated blocks: every bit flip, truncation, read-error offset and chunking of each block against all four load functions with an independent re-hash oracle; generated writer/encoder failures with a spy committer",
   text="For each generated block (5 codecs × 10 hash functions incl. identity and 1-2 byte digests) the complete set of single-bit flips, truncations, read errors at every offset and fixed chunkings, plus extensions and substitutions, is served by a fault-injecting storage to Load, LoadRaw, LoadPlusRaw and Fill. Whenever an independent re-hash of the served bytes does not reproduce the link the call must fail with ErrHashMismatch and return nothing; storage errors must surface; correct data in any chunking must load. Store with failing writers (every offset) or unencodable nodes must error and never commit.",
   note="Trusted: stdlib crypto re-hash defines 'legitimate data' (so truncated-digest collisions are recognised, not flagged). TrustedStorage=true is outside the property. Blocks larger than 160 B are skipped to keep the per-block enumeration complete."),
 "C01": dict(
   category="exploration", design_ref="DESIGN.md §5 C01",
   technique="property-based testing (rapid): abstract value model as oracle over generated values × builder call programs × node implementations; self-consistency of every read path; DeepEqual/Copy vs model equality",
   text="Generated data-model trees are built through drawn legal builder programs (size hints, AssembleEntry vs key/value, scalar assign vs AssignNode of nodes from other implementations) on basicnode (Any and kind-specific prototypes) and bindnode (typed Any containers, type and representation level; typed schemas are covered under C08/C09/C13 with the same reader). The full reader must return exactly the abstract value and finds any disagreement between Length, iterators and all lookup forms, and any wrong-kind accessor that does not return ErrWrongKind. DeepEqual must equal model equality on rebuilt and one-point-mutated pairs across implementations, Copy must reproduce the value. Exploration: no counterexample in the generated space.",
   note="Trusted: Go toolchain, rapid, the abstract value model and reader in harness/val and harness/nodes."),
 "C03": dict(
   category="exploration", design_ref="DESIGN.md §5 C03, Appendix C",
   technique="differential testing against an independent reference strict DAG-CBOR decoder: exhaustive enumeration of all short byte strings, rapid-generated structural and byte-level mutants of valid encodings, token soup",
   text="Every byte string of length 0..2 (quick) / 0..3 (thorough) is enumerated in strict, relaxed and no-links mode, and generated mutants of valid encodings (longer heads, indefinite lengths, tags anywhere, narrow floats, NaN/Inf, undefined, simple values, duplicate/unsorted/non-string keys, CID damage, negative-int boundaries, truncation, extension, bit flips) are decoded by the implementation and by a reference decoder written from RFC 8949 + the DAG-CBOR spec; accept/reject must agree and on accept the node read back must equal the reference's denotation. Exhaustive for the short strings, exploration beyond.",
   note="Trusted: the reference decoder in harness/refcbor; cid.Cast defines CID validity; inputs stay far inside the resource limits so those never decide."),
 "C04": dict(
   category="exploration", design_ref="DESIGN.md §5 C04",
   technique="property-based round-trip and metamorphic testing (rapid): decode(encode(v)) vs the abstract value with kinds, byte-identical output across insertion orders and implementations, key order and JSON validity checked with the standard library tokenizer; thorough tier adds native coverage-guided fuzzing (go test -fuzz) whose inputs, parsed into values, feed the same check",
   text="Generated DAG-JSON-expressible values (reserved shapes excluded by construction at every level) are encoded from a permuted insertion order, a drawn builder program and implementation; output must be identical to the default build's output, valid JSON with ascending bytewise keys at every level, and decode (into basicnode and the source implementation) to the key-sorted value with identical kinds; the plain json codec must round-trip in insertion order and refuse bytes/links. One known finding (integral floats) is listed and steered around.",
   note="Trusted: encoding/json tokenizer for validity and key order; abstract value model. Known finding C04-integral-float excluded by construction (counted in excluded_known)."),
 "C02": dict(
   category="exploration", design_ref="DESIGN.md §5 C02",
   technique="property-based differential testing (rapid) against an independent reference canonical DAG-CBOR encoder, plus permutation/implementation metamorphic relations and a completely enumerated head-size boundary table; thorough tier adds native coverage-guided fuzzing (go test -fuzz) whose inputs, decoded by the reference decoder, feed the same check",
   text="Generated values (all kinds, uint64 above int64, arbitrary byte keys, every CID shape) are built with a drawn insertion order, builder program and node implementation; Encode must equal the reference canonical encoder byte for byte, EncodedLength must equal the byte count, Decode must return the value in canonical order, the registered multicodec encoder must agree, and the plain cbor codec must emit the order-preserving encoding and refuse links. Head-size boundaries are enumerated completely. Exploration only: absence of a counterexample in the generated space, not a proof.",
   note="Trusted: Go toolchain, rapid, the ~200-line reference encoder/decoder in harness/refcbor (itself compared with the implementation on every case), go-cid for CID well-formedness of generated links."),
}

NOT_YET = "check not built yet in this session (see DESIGN.md §9 build order); will be claimed once its check runs green on the unchanged tree"

def main():
    here = os.path.dirname(os.path.abspath(__file__))
    props = [json.loads(l) for l in open(os.path.join(here, "properties.jsonl"))]
    hooks = []
    try:
        out = subprocess.run(["git", "-C", "/repo", "log", "--format=%H %s"], stdout=subprocess.PIPE, text=True).stdout
        hooks = [l.split()[0] for l in out.splitlines() if " hook:" in l or l.split(" ", 1)[1].startswith("hook:")]
    except Exception:
        pass
    checks, na = [], []
    for p in props:
        pid = p["id"]
        c = CLAIMS.get(pid)
        if not c:
            na.append({"property_id": pid, "reason": NOT_YET})
            continue
        checks.append({
            "property_id": pid,
            "quick_cmd": "./check %s --tier quick" % pid,
            "thorough_cmd": "./check %s --tier thorough" % pid,
            "evidence_file": "/verif/evidence/%s.json" % pid,
            "replay_cmd_template": "./check %s --replay {path}" % pid,
            "engine": "harness",
            "level_claimed": {"category": c["category"], "text": c["text"], "design_ref": c["design_ref"]},
            "level_note": c["note"],
            "technique": c["technique"],
        })
    m = {
        "version": 1,
        "setup_cmd": "./setup.sh",
        "hooks": {
            "guard": "verif",
            "enable": "go build tag: the driver builds the harness test binary with `-tags verif`, which compiles /repo (replace target) with the hook files enabled",
            "baseline_off_cmd": "./baseline_off.sh",
            "source_commits": hooks,
            "add_only": True,
        },
        "engines": [{"name": "harness", "path": "/verif/harness", "serves_properties": [c["property_id"] for c in checks],
                     "kind_free_text": "Go module: rapid property tests + native fuzz targets + reference models, driven by /verif/check"}],
        "checks": checks,
        "notes": "All checks are property-based tests / fuzzers with explicit oracles; see DESIGN.md. Known findings: known_findings.json.",
        "not_applicable": na,
    }
    json.dump(m, open(os.path.join(here, "MANIFEST.json"), "w"), indent=1)
    print("claimed:", [c["property_id"] for c in checks], "not claimed:", len(na))

main()
