#!/usr/bin/env python3
"""Regenerates MANIFEST.json from the table below (single source of truth for what is claimed)."""
import json, os, subprocess

CLAIMS = {
 "C02": dict(
   category="exploration", design_ref="DESIGN.md §5 C02",
   technique="property-based differential testing (rapid) against an independent reference canonical DAG-CBOR encoder, plus permutation/implementation metamorphic relations and a completely enumerated head-size boundary table",
   text="Generated values (all kinds, uint64 above int64, arbitrary byte keys, every CID shape) are built with a drawn insertion order, builder program and node implementation; Encode must equal the reference canonical encoder byte for byte, EncodedLength must equal the byte count, Decode must return the value in canonical order, the registered multicodec encoder must agree, and the plain cbor codec must emit the order-preserving encoding and refuse links. Head-size boundaries are enumerated completely. Exploration only: absence of a counterexample in the generated space, not a proof.",
   note="Trusted: Go toolchain, rapid, the ~200-line reference encoder/decoder in harness/refcbor (itself compared with the implementation on every case), go-cid for CID well-formedness of generated links."),
}

NOT_YET = "check not built yet in this session (see DESIGN.md §9 build order); will be claimed once its check runs green on the unchanged tree"

def main():
    here = os.path.dirname(os.path.abspath(__file__))
    props = [json.loads(l) for l in open(os.path.join(here, "properties.jsonl"))]
    hooks = []
    try:
        out = subprocess.run(["git", "-C", "/repo", "log", "--format=%H %s"], stdout=subprocess.PIPE, text=True).stdout
        hooks = [l.split()[0] for l in out.splitlines() if " hook:" in l or l.split(" ", 1)[1].startswith("hook:")]
    except Exception:
        pass
    checks, na = [], []
    for p in props:
        pid = p["id"]
        c = CLAIMS.get(pid)
        if not c:
            na.append({"property_id": pid, "reason": NOT_YET})
            continue
        checks.append({
            "property_id": pid,
            "quick_cmd": "./check %s --tier quick" % pid,
            "thorough_cmd": "./check %s --tier thorough" % pid,
            "evidence_file": "/verif/evidence/%s.json" % pid,
            "replay_cmd_template": "./check %s --replay {path}" % pid,
            "engine": "harness",
            "level_claimed": {"category": c["category"], "text": c["text"], "design_ref": c["design_ref"]},
            "level_note": c["note"],
            "technique": c["technique"],
        })
    m = {
        "version": 1,
        "setup_cmd": "./setup.sh",
        "hooks": {
            "guard": "verif",
            "enable": "go build tag: the driver builds the harness test binary with `-tags verif`, which compiles /repo (replace target) with the hook files enabled",
            "baseline_off_cmd": "./baseline_off.sh",
            "source_commits": hooks,
            "add_only": True,
        },
        "engines": [{"name": "harness", "path": "/verif/harness", "serves_properties": [c["property_id"] for c in checks],
                     "kind_free_text": "Go module: rapid property tests + native fuzz targets + reference models, driven by /verif/check"}],
        "checks": checks,
        "notes": "All checks are property-based tests / fuzzers with explicit oracles; see DESIGN.md. Known findings: known_findings.json.",
        "not_applicable": na,
    }
    json.dump(m, open(os.path.join(here, "MANIFEST.json"), "w"), indent=1)
    print("claimed:", [c["property_id"] for c in checks], "not claimed:", len(na))

main()
