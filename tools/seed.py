#!/usr/bin/env python3
"""Seeded-change bookkeeping.

  seed.py verify <src-dir> <seed-id> <Cxx>   confirm a candidate change in a scratch worktree (compiles, the
                                             existing suite still passes, its demonstration fails with and passes
                                             without it) and, if so, store it as /verif/seeded/<seed-id>/
  seed.py run <seed-id> [--tier quick|thorough] [--props C01,C02]
                                             apply /verif/seeded/<seed-id>/patch.diff to /repo, run the owning
                                             property's check (or the given ones), undo, record the outcome in meta.json
  seed.py runall [--tier quick]              run every stored seeded change against its property

No change is ever committed to /repo; it is applied with `git apply` and undone with `git checkout -- .`.
"""
import json, os, shutil, subprocess, sys, time, glob

VERIF = os.path.dirname(os.path.dirname(os.path.abspath(__file__)))
REPO = "/repo"
BASELINE_FAIL = {"TestRoundtripSchemaSchema", "TestParseSchemaSchema", "TestParse"}

def sh(cmd, cwd=None, timeout=1800, env=None):
    e = dict(os.environ)
    e.update(GOFLAGS="-mod=mod", GOPROXY="off")
    if env:
        e.update(env)
    r = subprocess.run(cmd, shell=True, cwd=cwd, stdout=subprocess.PIPE, stderr=subprocess.STDOUT, text=True, timeout=timeout, env=e)
    return r.returncode, r.stdout

def verify(src, sid, prop):
    meta = {}
    mp = os.path.join(src, "meta.json")
    if os.path.exists(mp):
        try:
            meta = json.load(open(mp))
        except Exception:
            meta = {"raw_meta": open(mp).read()[:2000]}
    patch = os.path.join(src, "patch.diff")
    demo = os.path.join(src, "demo_test.go")
    if not (os.path.exists(patch) and os.path.exists(demo)):
        print("missing patch.diff or demo_test.go in", src)
        return 1
    wt = "/tmp/seedverify-%d" % os.getpid()
    # schema/gen/go builds in $TMPDIR/test-go-ipld-prime-gengo: keep it private so concurrent runs cannot collide
    os.makedirs(wt + "-tmp", exist_ok=True)
    os.environ["TMPDIR"] = wt + "-tmp"
    sh("git -C %s worktree remove --force %s" % (REPO, wt))
    rc, out = sh("git -C %s worktree add --detach %s HEAD" % (REPO, wt))
    if rc != 0:
        print(out)
        return 2
    ran = []
    ok = True
    try:
        rc, out = sh("git apply --check %s && git apply %s" % (patch, patch), cwd=wt)
        ran.append(("git apply", rc))
        if rc != 0:
            print("patch does not apply:\n" + out)
            return 1
        rc, out = sh("go build ./...", cwd=wt)
        ran.append(("go build ./...", rc))
        if rc != 0:
            print("does not compile:\n" + out[-2000:])
            return 1
        rc, out = sh("go test -count=1 ./... 2>&1 | grep -- '^--- FAIL' | sed 's/--- FAIL: //; s/ .*//' | sort -u", cwd=wt)
        fails = set(l.split("/")[0] for l in out.split())
        ran.append(("go test ./... (failing top-level tests)", sorted(fails)))
        if not fails <= BASELINE_FAIL:
            print("existing tests fail with the change:", sorted(fails - BASELINE_FAIL))
            return 1
        pkgdir = meta.get("demo_package_dir") or ""
        if not pkgdir:
            head = open(demo).read()[:600]
            import re
            m = re.search(r"place in ([\w/\.-]+)", head)
            pkgdir = m.group(1) if m else "."
        pkgdir = pkgdir.strip().strip("/").replace("/tmp/seed/wt-%s/" % prop, "") or "."
        dst = os.path.join(wt, pkgdir, "zz_seed_demo_test.go")
        shutil.copy(demo, dst)
        rc1, out1 = sh("go test -count=1 ./%s/ 2>&1 | tail -30" % pkgdir, cwd=wt)
        with_fail = "FAIL" in out1
        ran.append(("demo with the change", "FAILS" if with_fail else "passes"))
        sh("git apply -R %s" % patch, cwd=wt)
        rc2, out2 = sh("go test -count=1 ./%s/ 2>&1 | tail -30" % pkgdir, cwd=wt)
        without_ok = ("FAIL" not in out2) and ("ok" in out2)
        ran.append(("demo without the change", "passes" if without_ok else "FAILS"))
        if not with_fail or not without_ok:
            print("demonstration does not discriminate:\nWITH:\n%s\nWITHOUT:\n%s" % (out1[-1500:], out2[-1500:]))
            return 1
    finally:
        sh("git -C %s worktree remove --force %s" % (REPO, wt))
        shutil.rmtree(wt, ignore_errors=True)
        shutil.rmtree(wt + "-tmp", ignore_errors=True)
    dst = os.path.join(VERIF, "seeded", sid)
    os.makedirs(dst, exist_ok=True)
    shutil.copy(patch, os.path.join(dst, "patch.diff"))
    shutil.copy(demo, os.path.join(dst, "demo_test.go"))
    out_meta = {
        "seed_id": sid, "property": prop,
        "summary": meta.get("summary", ""), "needs": meta.get("needs", ""),
        "files": meta.get("files", []), "demo_package_dir": pkgdir,
        "author": "independent sub-agent given only the property text and a scratch worktree",
        "confirmed_by_me": {"at": time.strftime("%Y-%m-%dT%H:%M:%SZ", time.gmtime()), "ran": ran,
                            "verdict": "applies, compiles, existing suite unchanged, demo fails with / passes without"},
        "detection": {},
    }
    json.dump(out_meta, open(os.path.join(dst, "meta.json"), "w"), indent=1)
    print("stored", dst)
    return 0

def run(sid, tier="quick", props=None):
    d = os.path.join(VERIF, "seeded", sid)
    meta = json.load(open(os.path.join(d, "meta.json")))
    props = props or [meta["property"]]
    rc, out = sh("git -C %s status --porcelain" % REPO)
    if out.strip():
        print("/repo is not clean; refusing")
        return 2
    rc, out = sh("git -C %s apply %s" % (REPO, os.path.join(d, "patch.diff")))
    if rc != 0:
        print("patch does not apply to /repo:\n" + out)
        return 2
    res = {}
    try:
        for p in props:
            t0 = time.time()
            rc, out = sh("./check %s --tier %s" % (p, tier), cwd=VERIF, timeout=7200)
            lines = [l for l in out.splitlines() if l.startswith("VIOLATION") or l.startswith("failure in") or l.startswith("shard ")]
            res[p] = {"tier": tier, "exit": rc, "detected": rc == 1, "wall_s": round(time.time() - t0, 1), "first_lines": [l[:400] for l in lines[:4]]}
            print(sid, p, tier, "exit", rc, "DETECTED" if rc == 1 else ("infra" if rc == 2 else "MISSED"), "%.0fs" % (time.time() - t0))
    finally:
        sh("git -C %s checkout -- ." % REPO)
        sh("git -C %s clean -fdq" % REPO)
        # failing cases saved while the seeded change was applied are not findings about the real tree
        for p in props:
            for f in glob.glob(os.path.join(VERIF, "replay", p, "fail-*")) + glob.glob(os.path.join(VERIF, "replay", p, "crash-*")):
                os.remove(f)
            # nor is the evidence of such a run evidence about the real tree
            sh("git checkout -- evidence/%s.json" % p, cwd=VERIF)
    meta.setdefault("detection", {})
    for p, r in res.items():
        meta["detection"].setdefault(p, {})[tier] = r
    json.dump(meta, open(os.path.join(d, "meta.json"), "w"), indent=1)
    return 0

def main():
    a = sys.argv[1:]
    if not a:
        print(__doc__)
        return 2
    if a[0] == "verify":
        return verify(a[1], a[2], a[3])
    tier = "quick"
    props = None
    if "--tier" in a:
        tier = a[a.index("--tier") + 1]
    if "--props" in a:
        props = a[a.index("--props") + 1].split(",")
    if a[0] == "run":
        return run(a[1], tier, props)
    if a[0] == "table":
        print("| change | property | what it does | what it needs | caught by |")
        print("|---|---|---|---|---|")
        for d in sorted(os.listdir(os.path.join(VERIF, "seeded"))):
            mp = os.path.join(VERIF, "seeded", d, "meta.json")
            if not os.path.exists(mp):
                continue
            m = json.load(open(mp))
            caught = []
            for p, tiers in sorted(m.get("detection", {}).items()):
                for t, r in sorted(tiers.items()):
                    if r.get("detected"):
                        caught.append("%s %s (%ss)" % (p, t, int(r.get("wall_s", 0))))
            c = ", ".join(caught) if caught else "**not caught**"
            if m.get("note"):
                c += " — " + m["note"]
            cl = lambda x: " ".join(str(x).split()).replace("|", "\\|")
            print("| %s | %s | %s | %s | %s |" % (d, m["property"], cl(m.get("summary", ""))[:170], cl(m.get("needs", ""))[:170], cl(c)))
        return 0
    if a[0] == "runall":
        for d in sorted(os.listdir(os.path.join(VERIF, "seeded"))):
            if os.path.exists(os.path.join(VERIF, "seeded", d, "meta.json")):
                run(d, tier, props)
        return 0
    print(__doc__)
    return 2

if __name__ == "__main__":
    sys.exit(main())
