// Package selx connects the reference selector AST and abstract graphs to the real
// traversal package: compiling, walking, and collecting what the walk reported.
package selx

import (
	"context"
	"encoding/json"
	"fmt"
	"strconv"

	"github.com/ipfs/go-cid"
	parse "github.com/ipld/go-ipld-prime/traversal/selector/parse"

	"github.com/ipld/go-ipld-prime/datamodel"
	"github.com/ipld/go-ipld-prime/linking"
	"github.com/ipld/go-ipld-prime/node/basicnode"
	"github.com/ipld/go-ipld-prime/traversal"
	"github.com/ipld/go-ipld-prime/traversal/selector"
	"github.com/ipld/go-ipld-prime/traversal/selector/builder"

	"verif/graph"
	"verif/nodes"
	"verif/refsel"
	"verif/val"
)

// CompileSpec compiles the selector from its spec data (my own AST -> spec encoder).
func CompileSpec(s refsel.Sel) (sel selector.Selector, err error) {
	defer func() {
		if r := recover(); r != nil {
			err = fmt.Errorf("PANIC in CompileSelector: %v", r)
		}
	}()
	n, err := nodes.BuildDefault(s.Spec())
	if err != nil {
		return nil, err
	}
	return selector.CompileSelector(n)
}

// HasStopAt reports whether the selector uses a stop-at condition (which the builder
// package cannot express).
func HasStopAt(s refsel.Sel) bool {
	m := map[string]bool{}
	s.Kinds(m)
	return m["stop-at"]
}

// CompileBuilder compiles the selector through the selector builder package.
func CompileBuilder(s refsel.Sel) (sel selector.Selector, err error) {
	defer func() {
		if r := recover(); r != nil {
			err = fmt.Errorf("PANIC in selector builder: %v", r)
		}
	}()
	ssb := builder.NewSelectorSpecBuilder(basicnode.Prototype.Any)
	return toSpec(ssb, s).Selector()
}

func toSpec(ssb builder.SelectorSpecBuilder, s refsel.Sel) builder.SelectorSpec {
	switch s.K {
	case "match":
		if s.Subset != nil {
			return ssb.MatcherSubset(s.Subset[0], s.Subset[1])
		}
		return ssb.Matcher()
	case "all":
		return ssb.ExploreAll(toSpec(ssb, *s.Next))
	case "index":
		return ssb.ExploreIndex(s.I, toSpec(ssb, *s.Next))
	case "range":
		return ssb.ExploreRange(s.Lo, s.Hi, toSpec(ssb, *s.Next))
	case "fields":
		return ssb.ExploreFields(func(efsb builder.ExploreFieldsSpecBuilder) {
			for _, f := range s.Fields {
				efsb.Insert(f.Name, toSpec(ssb, f.Sel))
			}
		})
	case "union":
		ms := make([]builder.SelectorSpec, len(s.Members))
		for i, m := range s.Members {
			ms[i] = toSpec(ssb, m)
		}
		return ssb.ExploreUnion(ms...)
	case "rec":
		lim := selector.RecursionLimitNone()
		if s.Limit >= 0 {
			lim = selector.RecursionLimitDepth(s.Limit)
		}
		return ssb.ExploreRecursive(lim, toSpec(ssb, *s.Seq))
	case "edge":
		return ssb.ExploreRecursiveEdge()
	}
	panic("bad selector kind " + s.K)
}

// Config returns a traversal configuration over the realised graph.
func Config(r *graph.Real) *traversal.Config {
	cfg := &traversal.Config{
		LinkSystem: r.LSys,
		LinkTargetNodePrototypeChooser: func(l datamodel.Link, _ linking.LinkContext) (datamodel.NodePrototype, error) {
			// a chooser may know what a link leads to and ask for the kind-specific prototype: it does for graphs
			// whose number of blocks is 2 mod 3 (a deterministic function of the case)
			if r.NBlocks%3 == 2 {
				switch r.BlockKinds[l.Binary()] {
				case val.Map:
					return basicnode.Prototype.Map, nil
				case val.List:
					return basicnode.Prototype.List, nil
				}
			}
			return basicnode.Prototype.Any, nil
		},
	}
	// callers pass fully populated and partly defaulted configurations alike: the context is set for graphs
	// with an odd number of blocks (a deterministic function of the case) and left to the default otherwise
	if r.NBlocks%2 == 1 {
		cfg.Ctx = context.WithValue(context.Background(), ctxKey{}, "verif")
	}
	return cfg
}

type ctxKey struct{}

// Collected is what a real walk reported.
type Collected struct {
	Visits []refsel.Visit
	Loads  []string
	Err    error
	// Nodes keeps the visited nodes themselves (C11/C14 re-read them), Paths their path objects
	Nodes []datamodel.Node
	Paths []datamodel.Path
}

// keptPaths: a visitor may keep the Progress.Path it was given; after the walk each kept path still reads as it
// did inside the callback.
func (c *Collected) keptPaths() error {
	for i := range c.Paths {
		if i < len(c.Visits) && c.Paths[i].String() != c.Visits[i].Path {
			return fmt.Errorf("the path kept from visit %d read %q inside the callback and reads %q after the walk", i, c.Visits[i].Path, c.Paths[i].String())
		}
	}
	return nil
}

// WalkAdv runs Progress.WalkAdv and collects (path, reason, value) of every callback.
func WalkAdv(r *graph.Real, prog traversal.Progress, s selector.Selector) (c Collected) {
	*r.Loads = (*r.Loads)[:0]
	defer func() {
		if rec := recover(); rec != nil {
			c.Err = fmt.Errorf("PANIC in WalkAdv: %v", rec)
		}
		c.Loads = append([]string{}, (*r.Loads)...)
	}()
	var readErr error
	err := prog.WalkAdv(r.Root, s, func(p traversal.Progress, n datamodel.Node, reason traversal.VisitReason) error {
		v, err := nodes.Read(n)
		if err != nil && readErr == nil {
			readErr = fmt.Errorf("visited node at %q unreadable: %w", p.Path.String(), err)
		}
		c.Visits = append(c.Visits, refsel.Visit{Path: p.Path.String(), Reason: string(rune(reason)), Value: v})
		c.Nodes = append(c.Nodes, n)
		c.Paths = append(c.Paths, p.Path)
		return nil
	})
	c.Err = err
	if err == nil {
		c.Err = readErr
	}
	if c.Err == nil {
		c.Err = c.keptPaths()
	}
	return c
}

// WalkMatching runs Progress.WalkMatching.
func WalkMatching(r *graph.Real, prog traversal.Progress, s selector.Selector) (c Collected) {
	*r.Loads = (*r.Loads)[:0]
	defer func() {
		if rec := recover(); rec != nil {
			c.Err = fmt.Errorf("PANIC in WalkMatching: %v", rec)
		}
		c.Loads = append([]string{}, (*r.Loads)...)
	}()
	var readErr error
	err := prog.WalkMatching(r.Root, s, func(p traversal.Progress, n datamodel.Node) error {
		v, err := nodes.Read(n)
		if err != nil && readErr == nil {
			readErr = fmt.Errorf("matched node at %q unreadable: %w", p.Path.String(), err)
		}
		c.Visits = append(c.Visits, refsel.Visit{Path: p.Path.String(), Reason: "m", Value: v})
		c.Nodes = append(c.Nodes, n)
		c.Paths = append(c.Paths, p.Path)
		return nil
	})
	c.Err = err
	if err == nil {
		c.Err = readErr
	}
	if c.Err == nil {
		c.Err = c.keptPaths()
	}
	return c
}

// DiffVisits describes the first difference between two visit lists ("" if equal).
func DiffVisits(got, want []refsel.Visit) string {
	n := len(got)
	if len(want) < n {
		n = len(want)
	}
	for i := 0; i < n; i++ {
		g, w := got[i], want[i]
		if g.Path != w.Path || g.Reason != w.Reason || !val.Equal(g.Value, w.Value, val.Ordered) {
			return fmt.Sprintf("visit %d: got (%q, %s, %s) want (%q, %s, %s)", i, g.Path, g.Reason, g.Value.Short(120), w.Path, w.Reason, w.Value.Short(120))
		}
	}
	if len(got) != len(want) {
		extra := ""
		if len(got) > n {
			extra = fmt.Sprintf("; first extra visit (%q, %s)", got[n].Path, got[n].Reason)
		} else {
			extra = fmt.Sprintf("; first missing visit (%q, %s)", want[n].Path, want[n].Reason)
		}
		return fmt.Sprintf("%d visits, want %d%s", len(got), len(want), extra)
	}
	return ""
}

func DiffLoads(got, want []string) string {
	if len(got) != len(want) {
		return fmt.Sprintf("%d block loads, want %d", len(got), len(want))
	}
	for i := range got {
		if got[i] != want[i] {
			return fmt.Sprintf("load %d: got %x want %x", i, got[i], want[i])
		}
	}
	return ""
}

// specJSON renders selector-spec data as DAG-JSON text, keeping the entry order (the
// dag-json encoder would sort the keys, which changes the field order of ExploreFields).
func specJSON(v val.V) string {
	switch v.K {
	case val.Int:
		return strconv.FormatInt(v.I, 10)
	case val.String:
		b, _ := json.Marshal(v.S)
		return string(b)
	case val.Link:
		c, err := cid.Cast([]byte(v.S))
		if err != nil {
			panic(err)
		}
		return `{"/":"` + c.String() + `"}`
	case val.List:
		out := "["
		for i, it := range v.Items {
			if i > 0 {
				out += ","
			}
			out += specJSON(it)
		}
		return out + "]"
	case val.Map:
		out := "{"
		for i, e := range v.Ents {
			if i > 0 {
				out += ","
			}
			b, _ := json.Marshal(e.K)
			out += string(b) + ":" + specJSON(e.V)
		}
		return out + "}"
	}
	panic("unexpected kind in selector spec")
}

// CompileJSON compiles the selector through the selector/parse package from JSON text.
func CompileJSON(s refsel.Sel) (sel selector.Selector, err error) {
	defer func() {
		if r := recover(); r != nil {
			err = fmt.Errorf("PANIC in ParseAndCompileJSONSelector: %v", r)
		}
	}()
	return parse.ParseAndCompileJSONSelector(specJSON(s.Spec()))
}
