package graph

import (
	"fmt"
	"strconv"

	"verif/val"
)

// Edit is what a transform does at its target.
type Edit struct {
	Kind string `json:"kind"` // replace | identity | remove
	V    val.V  `json:"v"`
}

// Callback is one expected (path, argument) of the transform function; Arg == nil means the
// function is called with a nil/absent node (an insertion).
type Callback struct {
	Path string
	Arg  *val.V
}

// UpdateResult is the reference outcome of a focused transform.
type UpdateResult struct {
	Root      val.V
	NewBlocks []val.V // blocks that must have been stored (content of every block on the path, after the update)
	Callbacks []Callback
}

type updater struct {
	store         map[string]val.V
	edit          Edit
	createParents bool
	res           *UpdateResult
}

var errDelete = fmt.Errorf("delete marker")

// Update computes the pure functional update of the graph: the value at path is replaced,
// inserted or removed; everything else stays equal and in order; below a link the changed
// block is a new block under a new link and the parents are re-linked.
func Update(root val.V, store map[string]val.V, path []string, e Edit, createParents bool) (UpdateResult, error) {
	var res UpdateResult
	u := &updater{store: store, edit: e, createParents: createParents, res: &res}
	if len(path) == 0 {
		if e.Kind == "remove" {
			return res, fmt.Errorf("removing the root is not defined")
		}
		v, err := u.target(root, true, nil)
		if err != nil {
			return res, err
		}
		res.Root = v
		return res, nil
	}
	v, err := u.upd(root, path, nil)
	if err != nil {
		return res, err
	}
	res.Root = v
	return res, nil
}

func joinp(at []string) string {
	out := ""
	for i, s := range at {
		if i > 0 {
			out += "/"
		}
		out += s
	}
	return out
}

// target applies the edit at the target position.
func (u *updater) target(cur val.V, exists bool, at []string) (val.V, error) {
	cb := Callback{Path: joinp(at)}
	if exists {
		c := cur
		cb.Arg = &c
	}
	u.res.Callbacks = append(u.res.Callbacks, cb)
	switch u.edit.Kind {
	case "replace":
		return u.edit.V, nil
	case "identity":
		if !exists {
			return val.V{}, fmt.Errorf("identity on an absent target is not defined")
		}
		return cur, nil
	case "remove":
		if !exists {
			return val.V{}, fmt.Errorf("removing an absent target is not defined")
		}
		return val.V{}, errDelete
	}
	return val.V{}, fmt.Errorf("bad edit %q", u.edit.Kind)
}

// create builds the missing parents (always maps) down to the inserted value.
func (u *updater) create(rest []string, at []string) (val.V, error) {
	if len(rest) == 0 {
		return u.target(val.V{}, false, at)
	}
	inner, err := u.create(rest[1:], append(append([]string{}, at...), rest[0]))
	if err != nil {
		return val.V{}, err
	}
	return val.MkMap(val.Ent{K: rest[0], V: inner}), nil
}

func (u *updater) upd(cur val.V, path []string, at []string) (val.V, error) {
	seg, rest := path[0], path[1:]
	end := len(rest) == 0
	nat := append(append([]string{}, at...), seg)
	switch cur.K {
	case val.Link:
		b, ok := u.store[cur.S]
		if !ok {
			return val.V{}, fmt.Errorf("link target missing at %q", joinp(at))
		}
		nb, err := u.upd(b, path, at)
		if err != nil {
			return val.V{}, err
		}
		u.res.NewBlocks = append(u.res.NewBlocks, nb)
		return val.MkLink(Relink(cur.S, nb)), nil
	case val.Map:
		out := val.V{K: val.Map, Ents: make([]val.Ent, 0, len(cur.Ents)+1)}
		found := false
		for _, e := range cur.Ents {
			if e.K != seg {
				out.Ents = append(out.Ents, e)
				continue
			}
			found = true
			var nv val.V
			var err error
			if end {
				nv, err = u.target(e.V, true, nat)
			} else {
				nv, err = u.upd(e.V, rest, nat)
			}
			if err == errDelete {
				continue
			}
			if err != nil {
				return val.V{}, err
			}
			out.Ents = append(out.Ents, val.Ent{K: seg, V: nv})
		}
		if found {
			return out, nil
		}
		if !end && !u.createParents {
			return val.V{}, fmt.Errorf("parent %q does not exist", joinp(nat))
		}
		nv, err := u.create(rest, nat)
		if err != nil {
			return val.V{}, err
		}
		out.Ents = append(out.Ents, val.Ent{K: seg, V: nv})
		return out, nil
	case val.List:
		if seg == "-" {
			idx := strconv.Itoa(len(cur.Items))
			nv, err := u.create(rest, append(append([]string{}, at...), idx))
			if err != nil {
				return val.V{}, err
			}
			out := val.V{K: val.List, Items: append(append([]val.V{}, cur.Items...), nv)}
			return out, nil
		}
		i, err := strconv.ParseInt(seg, 10, 64)
		if err != nil {
			return val.V{}, fmt.Errorf("segment %q is not a number and a list is at %q", seg, joinp(at))
		}
		if i < 0 || i >= int64(len(cur.Items)) {
			return val.V{}, fmt.Errorf("index %d out of bounds at %q", i, joinp(at))
		}
		out := val.V{K: val.List, Items: make([]val.V, 0, len(cur.Items))}
		for j, it := range cur.Items {
			if int64(j) != i {
				out.Items = append(out.Items, it)
				continue
			}
			var nv val.V
			var err error
			if end {
				nv, err = u.target(it, true, nat)
			} else {
				nv, err = u.upd(it, rest, nat)
			}
			if err == errDelete {
				continue
			}
			if err != nil {
				return val.V{}, err
			}
			out.Items = append(out.Items, nv)
		}
		return out, nil
	}
	return val.V{}, fmt.Errorf("a scalar is at %q, cannot go deeper", joinp(at))
}
