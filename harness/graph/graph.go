// Package graph models graphs of blocks connected by links: an abstract store (CID -> value),
// a generator that builds graphs bottom-up so that links are real content addresses, and the
// realisation of a graph in a real LinkSystem over a memstore.
package graph

import (
	"crypto/sha256"
	"fmt"
	"io"
	"strconv"

	"github.com/ipld/go-ipld-prime/datamodel"
	"github.com/ipld/go-ipld-prime/linking"
	cidlink "github.com/ipld/go-ipld-prime/linking/cid"
	"github.com/ipld/go-ipld-prime/node/basicnode"
	"github.com/ipld/go-ipld-prime/storage/memstore"
	"pgregory.net/rapid"

	"verif/lk"
	"verif/nodes"
	"verif/refcbor"
	"verif/val"
)

// Graph is plain data: blocks in creation order (a block may link to earlier blocks) and a root
// value that may link to any block.
type Graph struct {
	Blocks []val.V `json:"blocks"`
	Root   val.V   `json:"root"`
	// RootImpl names the node implementation that holds the root when it is realised (nodes.Impl; empty =
	// basicnode Any). Blocks are always loaded into what the traversal's prototype chooser says.
	RootImpl string `json:"root_impl,omitempty"`
}

var BlockLP = lk.LP{Version: 1, Codec: lk.CodecDagCbor, MhType: 0x12, MhLength: 32}

// CidOf is the content address of a block value (reference encoder + stdlib sha256).
func CidOf(v val.V) string {
	b, err := refcbor.Encode(v)
	if err != nil {
		panic(err)
	}
	d := sha256.Sum256(b)
	return val.MakeCidV1(lk.CodecDagCbor, 0x12, d[:])
}

// RawCidOf is the address of the same block bytes under the raw codec: another link with the same
// multihash, which loads as a bytes node holding the block's encoding.
func RawCidOf(v val.V) string {
	b, err := refcbor.Encode(v)
	if err != nil {
		panic(err)
	}
	d := sha256.Sum256(b)
	return val.MakeCidV1(lk.CodecRaw, 0x12, d[:])
}

// IdCidOf is the block carried inside its own link: a dag-cbor CID whose multihash is the identity "hash" of the
// block's bytes. A store may hold a block under such a link like under any other.
func IdCidOf(v val.V) string {
	b, err := refcbor.Encode(v)
	if err != nil {
		panic(err)
	}
	return val.MakeCidV1(lk.CodecDagCbor, 0x00, b)
}

// IsIdLink reports whether the binary CID is of the form IdCidOf produces.
func IsIdLink(l string) bool {
	return len(l) >= 3 && l[0] == 0x01 && l[1] == byte(lk.CodecDagCbor) && l[2] == 0x00
}

// Relink is the link a changed block gets when it is stored again in place of the block old led to: built from the
// old link's prototype, so an inlined block stays inlined (the identity multihash is never truncated).
func Relink(old string, nb val.V) string {
	if IsIdLink(old) {
		return IdCidOf(nb)
	}
	return CidOf(nb)
}

// Store maps CID bytes to block values (every block also under its raw-codec alias, as bytes).
func (g Graph) Store() map[string]val.V {
	m := map[string]val.V{}
	for _, b := range g.Blocks {
		// a block read back from DAG-CBOR storage has its maps in canonical order
		m[CidOf(b)] = b.SortKeys(val.LessLenFirst)
		enc, _ := refcbor.Encode(b)
		m[RawCidOf(b)] = val.MkBytes(enc)
		m[IdCidOf(b)] = m[CidOf(b)]
	}
	return m
}

// Opts steer the generator.
type Opts struct {
	MaxBlocks int
	Profile   val.Profile
	Dangling  bool // allow links to blocks that do not exist
	LinkHeavy bool // many links, many of them repeated
	// RawAliases: some links address a block's bytes under the raw codec instead (same multihash, other CID)
	RawAliases bool
	// IdAliases: some links to small blocks carry the block themselves (identity multihash)
	IdAliases bool
}

func DefaultOpts() Opts {
	return Opts{MaxBlocks: 5, Profile: val.Profile{MaxDepth: 3, MaxWidth: 4, Float: true, Bytes: true, Null: true, SmallKeys: true, IntsSmall: true, Links: true}}
}

// Draw draws a graph. Links inside values are chosen from the blocks created so far, so
// shared and repeated links (diamonds) arise naturally.
func Draw(t *rapid.T, o Opts) Graph {
	var g Graph
	n := rapid.IntRange(0, o.MaxBlocks).Draw(t, "nblocks")
	var pool []string
	for i := 0; i <= n; i++ {
		p := o.Profile
		p.Links = false
		v := val.DrawV(t, &p, "block"+strconv.Itoa(i))
		if v.K != val.Map && v.K != val.List && rapid.IntRange(0, 9).Draw(t, "scalarblock") > 0 {
			// blocks and roots are mostly containers
			if rapid.Bool().Draw(t, "wrapmap") {
				v = val.MkMap(val.Ent{K: "a", V: v}, val.Ent{K: "b", V: val.MkList(val.MkInt(1), val.MkString("two"))})
			} else {
				v = val.MkList(v, val.MkMap(val.Ent{K: "a", V: val.MkString("abcdef")}))
			}
		}
		if len(pool) > 0 && o.Profile.Links {
			v = sprinkleLinks(t, v, pool, 0, o.LinkHeavy)
		}
		if i == n {
			g.Root = v
			if rapid.IntRange(0, 2).Draw(t, "rootimpl") == 0 {
				g.RootImpl = string(rapid.SampledFrom(nodes.Impls).Draw(t, "rootimplwhich"))
			}
		} else {
			v = v.SortKeys(val.LessLenFirst)
			g.Blocks = append(g.Blocks, v)
			pool = append(pool, CidOf(v))
			if o.RawAliases && rapid.IntRange(0, 3).Draw(t, "rawalias") == 0 {
				pool = append(pool, RawCidOf(v))
			}
			if enc, _ := refcbor.Encode(v); o.IdAliases && len(enc) <= 48 && rapid.IntRange(0, 2).Draw(t, "idalias") == 0 {
				pool = append(pool, IdCidOf(v))
			}
		}
	}
	return g
}

// sprinkleLinks replaces some scalars / appends some entries with links from the pool.
func sprinkleLinks(t *rapid.T, v val.V, pool []string, depth int, heavy bool) val.V {
	hi := 2
	if heavy {
		hi = 1
	}
	pick := func() val.V { return val.MkLink(rapid.SampledFrom(pool).Draw(t, "link")) }
	switch v.K {
	case val.List:
		c := val.V{K: val.List, Items: make([]val.V, 0, len(v.Items)+1)}
		for _, it := range v.Items {
			c.Items = append(c.Items, sprinkleLinks(t, it, pool, depth+1, heavy))
		}
		if rapid.IntRange(0, hi).Draw(t, "addlink") == 0 {
			c.Items = append(c.Items, pick())
		}
		return c
	case val.Map:
		c := val.V{K: val.Map, Ents: make([]val.Ent, 0, len(v.Ents)+1)}
		for _, e := range v.Ents {
			c.Ents = append(c.Ents, val.Ent{K: e.K, V: sprinkleLinks(t, e.V, pool, depth+1, heavy)})
		}
		if rapid.IntRange(0, hi).Draw(t, "addlink") == 0 {
			k := rapid.SampledFrom([]string{"l", "a", "b", "lnk", "0"}).Draw(t, "linkkey")
			if _, dup := c.Get(k); !dup {
				c.Ents = append(c.Ents, val.Ent{K: k, V: pick()})
			}
		}
		return c
	default:
		if depth > 0 && rapid.IntRange(0, hi+1).Draw(t, "tolink") == 0 {
			return pick()
		}
		return v
	}
}

// Real is a graph realised in a link system.
type Real struct {
	LSys    linking.LinkSystem
	Mem     *memstore.Store
	Root    datamodel.Node
	Loads   *[]string // binary CIDs in the order the storage was asked for them
	NBlocks int
	// BlockKinds: kind of the root of each block, by the binary form of its (dag-cbor) link
	BlockKinds map[string]val.Kind
}

// Realise stores every block through a real LinkSystem (checking that the link it returns is
// the model's content address) and builds the root node.
func Realise(g Graph, np datamodel.NodePrototype) (*Real, error) {
	lsys := cidlink.DefaultLinkSystem()
	mem := &memstore.Store{Bag: map[string][]byte{}}
	lsys.SetWriteStorage(mem)
	var loads []string
	kinds := map[string]val.Kind{}
	lsys.StorageReadOpener = func(lctx linking.LinkContext, l datamodel.Link) (io.Reader, error) {
		loads = append(loads, l.Binary())
		return mem.GetStream(lctx.Ctx, l.Binary())
	}
	for i, b := range g.Blocks {
		n, err := nodes.BuildDefault(b)
		if err != nil {
			return nil, err
		}
		l, err := lsys.Store(linking.LinkContext{}, BlockLP.Proto(), n)
		if err != nil {
			return nil, fmt.Errorf("storing block %d: %w", i, err)
		}
		if l.Binary() != CidOf(b) {
			return nil, fmt.Errorf("block %d: link system gives %x, model gives %x", i, l.Binary(), CidOf(b))
		}
		// the same bytes under the raw-codec address
		mem.Bag[RawCidOf(b)] = mem.Bag[l.Binary()]
		mem.Bag[IdCidOf(b)] = mem.Bag[l.Binary()]
		kinds[l.Binary()] = b.K
	}
	if np == nil && g.RootImpl != "" {
		np = nodes.ProtoFor(nodes.Impl(g.RootImpl), g.Root.K)
	}
	if np == nil {
		np = basicnode.Prototype.Any
	}
	root, err := nodes.Build(g.Root, nil, np)
	if err != nil {
		return nil, err
	}
	return &Real{LSys: lsys, Mem: mem, Root: root, Loads: &loads, NBlocks: len(g.Blocks), BlockKinds: kinds}, nil
}

// Seg resolves one path segment on an abstract value, the way the data model defines it:
// map key lookup, or base-10 index on a list.
func Seg(v val.V, seg string) (val.V, bool) {
	switch v.K {
	case val.Map:
		return v.Get(seg)
	case val.List:
		i, err := strconv.ParseInt(seg, 10, 64)
		if err != nil || i < 0 || i >= int64(len(v.Items)) {
			return val.V{}, false
		}
		return v.Items[i], true
	}
	return val.V{}, false
}

// Resolve follows path from root, loading links from the store whenever the current value
// is a link and a further segment follows (or derefLast is set).
func Resolve(root val.V, store map[string]val.V, path []string, derefLast bool) (val.V, error) {
	cur := root
	for i, s := range path {
		if cur.K != val.Map && cur.K != val.List {
			return val.V{}, fmt.Errorf("segment %d (%q): a scalar was reached early", i, s)
		}
		next, ok := Seg(cur, s)
		if !ok {
			return val.V{}, fmt.Errorf("segment %d (%q) does not exist", i, s)
		}
		cur = next
		for cur.K == val.Link && (i < len(path)-1 || derefLast) {
			b, ok := store[cur.S]
			if !ok {
				return val.V{}, fmt.Errorf("segment %d (%q): link target missing", i, s)
			}
			cur = b
		}
	}
	return cur, nil
}

// LenientIndex reports whether resolving path on this graph applies a numeric string that is
// not in canonical base-10 form ("02", "+2", "-0") to a list: the data model leaves open
// whether such a segment addresses an element.
func LenientIndex(root val.V, store map[string]val.V, path []string) bool {
	cur := root
	for _, s := range path {
		if cur.K == val.List {
			if i, err := strconv.ParseInt(s, 10, 64); err == nil && strconv.FormatInt(i, 10) != s {
				return true
			}
		}
		next, ok := Seg(cur, s)
		if !ok {
			return false
		}
		cur = next
		for cur.K == val.Link {
			b, ok := store[cur.S]
			if !ok {
				return false
			}
			cur = b
		}
	}
	return false
}

// Children lists the (segment, value) pairs of a container in its own order.
func Children(v val.V) []val.Ent {
	switch v.K {
	case val.Map:
		return v.Ents
	case val.List:
		out := make([]val.Ent, len(v.Items))
		for i, it := range v.Items {
			out[i] = val.Ent{K: strconv.Itoa(i), V: it}
		}
		return out
	}
	return nil
}

// Inline returns the tree with every link replaced by the block it points to (links whose
// target is missing stay links). The graph is acyclic by construction.
func Inline(v val.V, store map[string]val.V) val.V {
	switch v.K {
	case val.Link:
		if b, ok := store[v.S]; ok {
			return Inline(b, store)
		}
		return v
	case val.List:
		c := val.V{K: val.List, Items: make([]val.V, len(v.Items))}
		for i, it := range v.Items {
			c.Items[i] = Inline(it, store)
		}
		return c
	case val.Map:
		c := val.V{K: val.Map, Ents: make([]val.Ent, len(v.Ents))}
		for i, e := range v.Ents {
			c.Ents[i] = val.Ent{K: e.K, V: Inline(e.V, store)}
		}
		return c
	}
	return v
}
