package val

import (
	"encoding/binary"
	"math"
	"unicode/utf8"

	"pgregory.net/rapid"
)

// Profile restricts the generated value domain to what a property quantifies over.
type Profile struct {
	MaxDepth   int  // nesting depth of containers (root container = 1)
	MaxWidth   int  // usual maximum number of entries
	Wide       bool // occasionally draw a wide container (crossing 23/24, 255/256)
	Uint       bool // allow ints above MaxInt64
	Float      bool
	Bytes      bool
	Links      bool
	Null       bool
	UTF8Only   bool // strings and keys are valid UTF-8
	JSONSafe   bool // exclude DAG-JSON reserved shapes; implies UTF8Only
	NoMaps     bool
	NoLists    bool
	SmallKeys  bool // keys from a tiny alphabet (graphs / selectors)
	IntsSmall  bool // small ints only
	NoEmptyKey bool
	wideUsed   int // wide containers drawn so far in the current value (at most one per value)
}

func FullProfile() Profile {
	return Profile{MaxDepth: 4, MaxWidth: 5, Wide: true, Uint: true, Float: true, Bytes: true, Links: true, Null: true}
}

func uvarint(x uint64) []byte {
	var b [10]byte
	n := binary.PutUvarint(b[:], x)
	return b[:n]
}

// Multihash function codes with their full digest size.
type MhSpec struct {
	Code uint64
	Size int
}

var MhSpecs = []MhSpec{
	{0x12, 32},   // sha2-256
	{0x13, 64},   // sha2-512
	{0x11, 20},   // sha1
	{0x16, 32},   // sha3-256
	{0x14, 64},   // sha3-512
	{0xb220, 32}, // blake2b-256
	{0x1e, 32},   // blake3
	{0x00, -1},   // identity (any length)
}

var CidCodecs = []uint64{0x55, 0x70, 0x71, 0x0129, 0x51, 0x0200, 0x72, 0x78}

// MakeCidV1 builds CIDv1 bytes by hand.
func MakeCidV1(codec, mhcode uint64, digest []byte) string {
	b := append([]byte{}, uvarint(1)...)
	b = append(b, uvarint(codec)...)
	b = append(b, uvarint(mhcode)...)
	b = append(b, uvarint(uint64(len(digest)))...)
	b = append(b, digest...)
	return string(b)
}

// MakeCidV0 builds CIDv0 bytes (sha2-256, 32 byte digest).
func MakeCidV0(digest32 []byte) string {
	b := append([]byte{0x12, 0x20}, digest32...)
	return string(b)
}

// DrawCid draws the binary form of a syntactically valid CID with a random digest.
func DrawCid(t *rapid.T, label string) string {
	kind := rapid.IntRange(0, 9).Draw(t, label+".cidkind")
	if kind == 0 {
		d := rapid.SliceOfN(rapid.Byte(), 32, 32).Draw(t, label+".digest")
		return MakeCidV0(d)
	}
	codec := rapid.SampledFrom(CidCodecs).Draw(t, label+".codec")
	spec := rapid.SampledFrom(MhSpecs).Draw(t, label+".mh")
	var n int
	if spec.Size < 0 {
		n = rapid.IntRange(0, 40).Draw(t, label+".idlen")
	} else if rapid.IntRange(0, 4).Draw(t, label+".trunc") == 0 {
		n = rapid.IntRange(1, spec.Size).Draw(t, label+".dlen")
	} else {
		n = spec.Size
	}
	d := rapid.SliceOfN(rapid.Byte(), n, n).Draw(t, label+".digest")
	return MakeCidV1(codec, spec.Code, d)
}

var IntBoundaries = func() []int64 {
	out := []int64{0, 1, -1, 10, -10, 23, 24, 25, -24, -25, -26, 255, 256, -256, -257, 65535, 65536, -65536, -65537,
		1<<32 - 1, 1 << 32, 1<<32 + 1, -(1 << 32), -(1 << 32) - 1, math.MaxInt64, math.MaxInt64 - 1, math.MinInt64, math.MinInt64 + 1,
		1 << 53, 1<<53 + 1, -(1 << 53), 1000000, -1000000}
	return out
}()

var UintBoundaries = []uint64{1 << 63, 1<<63 + 1, math.MaxUint64, math.MaxUint64 - 1, 1<<63 + 1<<32}

var FloatSpecials = []float64{0, math.Copysign(0, -1), 1, -1, 0.5, 1.5, -1.5, 2, 100, 1e-6, 1e-7, 9.999999e-7, 1e20, 1e21, 1e22, 1.5e300, -2.5e-300,
	math.MaxFloat64, -math.MaxFloat64, math.SmallestNonzeroFloat64, 4.9e-320, 3.4028234663852886e38, 65504, 0.1, 1.0 / 3, 123456789.125,
	9007199254740992, 9007199254740993, -9223372036854775808, 9223372036854775807, 18446744073709551615, 3.0, 1e15, 1e16, 255, 65536}

func DrawInt(t *rapid.T, label string, small bool) int64 {
	if small {
		return int64(rapid.IntRange(-3, 12).Draw(t, label))
	}
	switch rapid.IntRange(0, 3).Draw(t, label+".mode") {
	case 0:
		return rapid.SampledFrom(IntBoundaries).Draw(t, label)
	case 1:
		// near a power of two
		k := rapid.IntRange(0, 62).Draw(t, label+".pow")
		d := int64(rapid.IntRange(-2, 2).Draw(t, label+".delta"))
		x := int64(1)<<uint(k) + d
		if rapid.Bool().Draw(t, label+".neg") {
			x = -x
		}
		return x
	case 2:
		return int64(rapid.IntRange(-300, 300).Draw(t, label))
	default:
		return rapid.Int64().Draw(t, label)
	}
}

func DrawUintBig(t *rapid.T, label string) uint64 {
	if rapid.Bool().Draw(t, label+".mode") {
		return rapid.SampledFrom(UintBoundaries).Draw(t, label)
	}
	return rapid.Uint64Range(1<<63, math.MaxUint64).Draw(t, label)
}

// DrawFloat draws a finite float64.
func DrawFloat(t *rapid.T, label string) float64 {
	switch rapid.IntRange(0, 3).Draw(t, label+".mode") {
	case 0:
		return rapid.SampledFrom(FloatSpecials).Draw(t, label)
	case 1:
		// integral-valued or few-decimal values
		return float64(rapid.IntRange(-100000, 100000).Draw(t, label)) / float64(rapid.SampledFrom([]int{1, 2, 4, 10, 1000}).Draw(t, label+".div"))
	case 2:
		// float32-exact values
		f := float64(math.Float32frombits(rapid.Uint32().Draw(t, label+".f32")))
		if math.IsNaN(f) || math.IsInf(f, 0) {
			return 1.25
		}
		return f
	default:
		f := math.Float64frombits(rapid.Uint64().Draw(t, label+".bits"))
		if math.IsNaN(f) || math.IsInf(f, 0) {
			return -7.5
		}
		return f
	}
}

var utf8Pieces = []string{"a", "b", "z", "A", "0", "9", " ", "/", "\"", "\\", "\n", "\t", "\x00", "\x1f", "\x7f", "é", "ß", "€", "日", "本",
	"\u2028", "\u2029", "\ufeff", "😀", "𝄞", "<", ">", "&", "'", ".", "..", "~", "bytes", "-", "+", "e", "1"}

var rawPieces = []string{"\xff", "\xfe", "\x80", "\xc0", "\xc3", "\xed\xa0\x80", "\xf4\x90\x80\x80", "\xe2\x82"}

// DrawText draws a string; with utf8Only it is valid UTF-8, otherwise arbitrary bytes.
func DrawText(t *rapid.T, label string, utf8Only bool, maxPieces int) string {
	mode := rapid.IntRange(0, 9).Draw(t, label+".mode")
	switch {
	case mode <= 2:
		return rapid.StringMatching(`[a-d]{0,3}`).Draw(t, label)
	case mode <= 4:
		return rapid.StringMatching(`[a-zA-Z0-9_]{0,12}`).Draw(t, label)
	case mode <= 7:
		n := rapid.IntRange(0, maxPieces).Draw(t, label+".n")
		s := ""
		for i := 0; i < n; i++ {
			if !utf8Only && rapid.IntRange(0, 3).Draw(t, label+".raw") == 0 {
				s += rapid.SampledFrom(rawPieces).Draw(t, label+".piece")
			} else {
				s += rapid.SampledFrom(utf8Pieces).Draw(t, label+".piece")
			}
		}
		return s
	case mode == 8:
		if utf8Only {
			return rapid.String().Draw(t, label)
		}
		return string(rapid.SliceOfN(rapid.Byte(), 0, 40).Draw(t, label))
	default:
		// length near a head-size boundary
		n := rapid.SampledFrom([]int{22, 23, 24, 25, 254, 255, 256, 257}).Draw(t, label+".len")
		c := rapid.SampledFrom([]string{"a", "k", "é"}).Draw(t, label+".fill")
		s := ""
		for len(s)+len(c) <= n {
			s += c
		}
		for len(s) < n {
			s += "x"
		}
		return s
	}
}

// DrawKeys draws n distinct map keys, biased towards sets that stress canonical ordering:
// equal-length keys differing late, prefixes of each other, multi-byte characters.
func DrawKeys(t *rapid.T, label string, n int, p *Profile) []string {
	seen := map[string]bool{}
	keys := make([]string, 0, n)
	add := func(k string) {
		if p.NoEmptyKey && k == "" {
			return
		}
		if p.UTF8Only || p.JSONSafe {
			if !utf8.ValidString(k) {
				return
			}
		}
		if !seen[k] {
			seen[k] = true
			keys = append(keys, k)
		}
	}
	tries := 0
	for len(keys) < n && tries < 10*n+20 {
		tries++
		if p.SmallKeys {
			add(rapid.SampledFrom([]string{"a", "b", "c", "d", "e", "f", "0", "1", "2", "aa", "ab", "x"}).Draw(t, label+".k"))
			continue
		}
		mode := rapid.IntRange(0, 5).Draw(t, label+".kmode")
		switch {
		case mode <= 1 || len(keys) == 0:
			add(DrawText(t, label+".k", p.UTF8Only || p.JSONSafe, 4))
		case mode == 2: // same length as an existing key, differing in the last byte
			base := keys[rapid.IntRange(0, len(keys)-1).Draw(t, label+".base")]
			if len(base) > 0 {
				b := []byte(base)
				b[len(b)-1] = "abyz019"[rapid.IntRange(0, 6).Draw(t, label+".last")]
				add(string(b))
			} else {
				add("a")
			}
		case mode == 3: // extension of an existing key
			base := keys[rapid.IntRange(0, len(keys)-1).Draw(t, label+".base")]
			add(base + rapid.SampledFrom([]string{"a", "0", "é", "\x00", "/"}).Draw(t, label+".ext"))
		case mode == 4: // prefix of an existing key
			base := keys[rapid.IntRange(0, len(keys)-1).Draw(t, label+".base")]
			if len(base) > 1 {
				cut := rapid.IntRange(0, len(base)-1).Draw(t, label+".cut")
				add(base[:cut])
			} else {
				add("zz")
			}
		default:
			add(rapid.StringMatching(`[a-c]{1,2}|[0-9]{1,2}|/|bytes`).Draw(t, label+".k"))
		}
	}
	return keys
}

// DrawV draws a value within the profile.
func DrawV(t *rapid.T, p *Profile, label string) V {
	p.wideUsed = 0
	v := drawV(t, p, label, 1)
	if p.JSONSafe {
		v = FixReserved(v)
	}
	return v
}

func drawV(t *rapid.T, p *Profile, label string, depth int) V {
	type opt struct {
		k Kind
		w int
	}
	var opts []opt
	if depth <= p.MaxDepth {
		w := 5
		if depth == 1 {
			w = 14
		}
		if !p.NoMaps {
			opts = append(opts, opt{Map, w})
		}
		if !p.NoLists {
			opts = append(opts, opt{List, w})
		}
	}
	opts = append(opts, opt{String, 3}, opt{Int, 3})
	if p.Links {
		opts = append(opts, opt{Link, 2})
	}
	if p.Bytes {
		opts = append(opts, opt{Bytes, 2})
	}
	if p.Float {
		opts = append(opts, opt{Float, 2})
	}
	if p.Uint {
		opts = append(opts, opt{Uint, 1})
	}
	if p.Null {
		opts = append(opts, opt{Null, 1})
	}
	opts = append(opts, opt{Bool, 1})
	total := 0
	for _, o := range opts {
		total += o.w
	}
	r := rapid.IntRange(0, total-1).Draw(t, label+".kind")
	var k Kind
	for _, o := range opts {
		if r < o.w {
			k = o.k
			break
		}
		r -= o.w
	}
	switch k {
	case Null:
		return MkNull()
	case Bool:
		return MkBool(rapid.Bool().Draw(t, label+".b"))
	case Int:
		return MkInt(DrawInt(t, label+".i", p.IntsSmall))
	case Uint:
		return MkUint(DrawUintBig(t, label+".u"))
	case Float:
		return MkFloat(DrawFloat(t, label+".f"))
	case String:
		return MkString(DrawText(t, label+".s", p.UTF8Only || p.JSONSafe, 6))
	case Bytes:
		return MkBytes([]byte(DrawText(t, label+".y", false, 6)))
	case Link:
		return MkLink(DrawCid(t, label+".l"))
	case List:
		n := drawWidth(t, p, label+".n", depth)
		items := make([]V, n)
		for i := range items {
			items[i] = drawV(t, p, label+".e", depth+1)
		}
		return V{K: List, Items: items}
	case Map:
		if p.JSONSafe && rapid.IntRange(0, 9).Draw(t, label+".near") == 0 {
			return drawNearReserved(t, p, label, depth)
		}
		n := drawWidth(t, p, label+".n", depth)
		keys := DrawKeys(t, label, n, p)
		ents := make([]Ent, len(keys))
		for i, key := range keys {
			ents[i] = Ent{key, drawV(t, p, label+".v", depth+1)}
		}
		return V{K: Map, Ents: ents}
	}
	return MkNull()
}

// drawNearReserved draws a map that resembles, but is not, one of the shapes DAG-JSON reserves for
// links and bytes: a "/" entry holding a string (CID-like or not) or a {"bytes": …} map, with further
// entries beside or inside it, or with a value of another kind. (An exact reserved shape that comes out
// is repaired by FixReserved like any other.)
func drawNearReserved(t *rapid.T, p *Profile, label string, depth int) V {
	str := func() V {
		if rapid.Bool().Draw(t, label+".cidlike") {
			return MkString(rapid.SampledFrom([]string{"bafyreigdmqpykrgxyaxtlafqpqhzrb7qy2rh75nldvfd4tucqmqqme5yje", "QmXNh4MHXRFhmv4W3LkdFHK2JgaV5qBqfXkxwUD5oApqCT", "bafkqaaa", "AQID", "aGVsbG8", ""}).Draw(t, label+".cidstr"))
		}
		return MkString(DrawText(t, label+".s", true, 5))
	}
	var slash V
	switch rapid.IntRange(0, 5).Draw(t, label+".slashval") {
	case 0:
		slash = str()
	case 1:
		slash = MkMap(Ent{"bytes", str()})
	case 2: // a second entry inside the inner map, before or after "bytes"
		k := rapid.SampledFrom([]string{"a", "bytez", "c", "byte", "\u0000", "bytes0"}).Draw(t, label+".ink")
		slash = MkMap(Ent{"bytes", str()}, Ent{k, drawV(t, p, label+".inv", depth+2)})
	case 3:
		slash = MkMap(Ent{"bytes", drawV(t, p, label+".nonstr", depth+2)})
	case 4:
		slash = MkMap(Ent{"/", str()})
	default:
		slash = drawV(t, p, label+".other", depth+1)
	}
	ents := []Ent{{"/", slash}}
	// further entries: keys sorting after "/" (most) or before it
	n := rapid.IntRange(0, 2).Draw(t, label+".more")
	for i := 0; i < n; i++ {
		k := rapid.SampledFrom([]string{"zzz", "a", "0", "bytes", "//", "/a", " ", "!", "\t", "-", "."}).Draw(t, label+".morek")
		dup := false
		for _, e := range ents {
			dup = dup || e.K == k
		}
		if !dup {
			ents = append(ents, Ent{k, drawV(t, p, label+".morev", depth+1)})
		}
	}
	return V{K: Map, Ents: ents}
}

func drawWidth(t *rapid.T, p *Profile, label string, depth int) int {
	if p.Wide && depth <= 2 && p.wideUsed == 0 && rapid.IntRange(0, 39).Draw(t, label+".wide") == 0 {
		p.wideUsed++
		return rapid.SampledFrom([]int{22, 23, 24, 25, 30, 255, 256, 257}).Draw(t, label+".w")
	}
	w := p.MaxWidth
	if w <= 0 {
		w = 4
	}
	return rapid.IntRange(0, w).Draw(t, label)
}

// IsReservedShape reports whether v is one of the map shapes DAG-JSON reserves:
// {"/": string} or {"/": {"bytes": string}}.
func IsReservedShape(v V) bool {
	if v.K != Map || len(v.Ents) != 1 || v.Ents[0].K != "/" {
		return false
	}
	in := v.Ents[0].V
	if in.K == String {
		return true
	}
	if in.K == Map && len(in.Ents) == 1 && in.Ents[0].K == "bytes" && in.Ents[0].V.K == String {
		return true
	}
	return false
}

// FixReserved rewrites reserved shapes (at every level) by adding a second entry.
func FixReserved(v V) V {
	c := v
	if v.Items != nil {
		c.Items = make([]V, len(v.Items))
		for i := range v.Items {
			c.Items[i] = FixReserved(v.Items[i])
		}
	}
	if v.Ents != nil {
		c.Ents = make([]Ent, len(v.Ents))
		for i := range v.Ents {
			c.Ents[i] = Ent{v.Ents[i].K, FixReserved(v.Ents[i].V)}
		}
	}
	if IsReservedShape(c) {
		c.Ents = append(c.Ents, Ent{"x", MkInt(1)})
	}
	return c
}

// Permute returns v with every map's entries permuted, driven by the choice bytes.
func Permute(v V, choices []byte) V {
	idx := 0
	next := func(n int) int {
		if len(choices) == 0 || n <= 1 {
			return 0
		}
		c := int(choices[idx%len(choices)])
		idx++
		return c % n
	}
	var rec func(v V) V
	rec = func(v V) V {
		c := v
		if v.Items != nil {
			c.Items = make([]V, len(v.Items))
			for i := range v.Items {
				c.Items[i] = rec(v.Items[i])
			}
		}
		if v.Ents != nil {
			c.Ents = make([]Ent, len(v.Ents))
			for i := range v.Ents {
				c.Ents[i] = Ent{v.Ents[i].K, rec(v.Ents[i].V)}
			}
			// Fisher-Yates with drawn choices
			for i := len(c.Ents) - 1; i > 0; i-- {
				j := next(i + 1)
				c.Ents[i], c.Ents[j] = c.Ents[j], c.Ents[i]
			}
		}
		return c
	}
	return rec(v)
}

// IntegralFloat reports a float whose value is integral and below 1e21 in magnitude (the
// class of the known DAG-JSON finding).
func IntegralFloat(x V) bool {
	return x.K == Float && x.F == math.Trunc(x.F) && math.Abs(x.F) < 1e21
}

// ShiftIntegralFloats returns v with every such float moved off the integers.
func ShiftIntegralFloats(v V) (V, bool) {
	if !v.Has(IntegralFloat) {
		return v, false
	}
	c := v.Clone()
	var fix func(x *V)
	fix = func(x *V) {
		if IntegralFloat(*x) {
			if math.Abs(x.F) < 1e15 {
				x.F += 0.5
			} else {
				x.F *= 1e10 // beyond 1e21 the encoder uses exponent notation, which keeps the kind
			}
		}
		for i := range x.Items {
			fix(&x.Items[i])
		}
		for i := range x.Ents {
			fix(&x.Ents[i].V)
		}
	}
	fix(&c)
	return c, true
}
