package val
import _ "pgregory.net/rapid"
import _ "github.com/ipld/go-ipld-prime"
