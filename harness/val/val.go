// Package val is the abstract IPLD data-model value used by every oracle in the harness.
// It shares no code with go-ipld-prime.
package val

import (
	"encoding/hex"
	"encoding/json"
	"fmt"
	"hash/fnv"
	"math"
	"sort"
	"strconv"
	"strings"
)

type Kind int

const (
	Null Kind = iota
	Bool
	Int
	Uint // an integer above MaxInt64 (only ever holds values > MaxInt64)
	Float
	String
	Bytes
	Link
	List
	Map
	Absent // typed nodes only: the "absent" marker of a struct field
)

var kindNames = []string{"null", "bool", "int", "uint", "float", "string", "bytes", "link", "list", "map", "absent"}

func (k Kind) String() string {
	if int(k) < len(kindNames) {
		return kindNames[k]
	}
	return "kind?" + strconv.Itoa(int(k))
}

// V is one data-model value. Exactly the field matching K is meaningful.
type V struct {
	K     Kind
	B     bool
	I     int64
	U     uint64
	F     float64
	S     string // String content, Bytes content, or Link (binary CID) content
	Items []V
	Ents  []Ent
}

type Ent struct {
	K string
	V V
}

func MkNull() V                { return V{K: Null} }
func MkBool(b bool) V          { return V{K: Bool, B: b} }
func MkInt(i int64) V          { return V{K: Int, I: i} }
func MkFloat(f float64) V      { return V{K: Float, F: f} }
func MkString(s string) V      { return V{K: String, S: s} }
func MkBytes(b []byte) V       { return V{K: Bytes, S: string(b)} }
func MkLink(cidBytes string) V { return V{K: Link, S: cidBytes} }
func MkList(items ...V) V      { return V{K: List, Items: items} }
func MkMap(ents ...Ent) V      { return V{K: Map, Ents: ents} }
func MkAbsent() V              { return V{K: Absent} }

// MkUint normalises: values that fit int64 become Int.
func MkUint(u uint64) V {
	if u <= math.MaxInt64 {
		return V{K: Int, I: int64(u)}
	}
	return V{K: Uint, U: u}
}

func (v V) Get(key string) (V, bool) {
	for _, e := range v.Ents {
		if e.K == key {
			return e.V, true
		}
	}
	return V{}, false
}

// EqMode selects the comparison.
type EqMode int

const (
	Ordered   EqMode = iota // maps compare entry by entry in order; floats by bit pattern
	Unordered               // maps compare as sets of entries; floats by bit pattern
)

func Equal(a, b V, m EqMode) bool {
	if a.K != b.K {
		return false
	}
	switch a.K {
	case Null, Absent:
		return true
	case Bool:
		return a.B == b.B
	case Int:
		return a.I == b.I
	case Uint:
		return a.U == b.U
	case Float:
		return math.Float64bits(a.F) == math.Float64bits(b.F)
	case String, Bytes, Link:
		return a.S == b.S
	case List:
		if len(a.Items) != len(b.Items) {
			return false
		}
		for i := range a.Items {
			if !Equal(a.Items[i], b.Items[i], m) {
				return false
			}
		}
		return true
	case Map:
		if len(a.Ents) != len(b.Ents) {
			return false
		}
		if m == Ordered {
			for i := range a.Ents {
				if a.Ents[i].K != b.Ents[i].K || !Equal(a.Ents[i].V, b.Ents[i].V, m) {
					return false
				}
			}
			return true
		}
		for _, e := range a.Ents {
			o, ok := b.Get(e.K)
			if !ok || !Equal(e.V, o, m) {
				return false
			}
		}
		return true
	}
	return false
}

// EqualGoFloat is Equal/Ordered except that floats compare with Go's == (so +0 == -0),
// which is what datamodel.DeepEqual documents.
func EqualGoFloat(a, b V) bool {
	if a.K != b.K {
		return false
	}
	switch a.K {
	case Float:
		return a.F == b.F
	case List:
		if len(a.Items) != len(b.Items) {
			return false
		}
		for i := range a.Items {
			if !EqualGoFloat(a.Items[i], b.Items[i]) {
				return false
			}
		}
		return true
	case Map:
		if len(a.Ents) != len(b.Ents) {
			return false
		}
		for i := range a.Ents {
			if a.Ents[i].K != b.Ents[i].K || !EqualGoFloat(a.Ents[i].V, b.Ents[i].V) {
				return false
			}
		}
		return true
	}
	return Equal(a, b, Ordered)
}

// NormNaN returns a copy in which every NaN float is the one canonical NaN (NaN payloads are
// not data in the IPLD data model; only "is NaN" is).
func (v V) NormNaN() V {
	c := v.Clone()
	var rec func(x *V)
	rec = func(x *V) {
		if x.K == Float && math.IsNaN(x.F) {
			x.F = math.NaN()
		}
		for i := range x.Items {
			rec(&x.Items[i])
		}
		for i := range x.Ents {
			rec(&x.Ents[i].V)
		}
	}
	rec(&c)
	return c
}

// Clone makes a deep copy.
func (v V) Clone() V {
	c := v
	if v.Items != nil {
		c.Items = make([]V, len(v.Items))
		for i := range v.Items {
			c.Items[i] = v.Items[i].Clone()
		}
	}
	if v.Ents != nil {
		c.Ents = make([]Ent, len(v.Ents))
		for i := range v.Ents {
			c.Ents[i] = Ent{v.Ents[i].K, v.Ents[i].V.Clone()}
		}
	}
	return c
}

// SortKeys returns a copy with every map sorted by the given comparison, recursively.
func (v V) SortKeys(less func(a, b string) bool) V {
	c := v.Clone()
	c.sortInPlace(less)
	return c
}

func (v *V) sortInPlace(less func(a, b string) bool) {
	for i := range v.Items {
		v.Items[i].sortInPlace(less)
	}
	for i := range v.Ents {
		v.Ents[i].V.sortInPlace(less)
	}
	if v.K == Map {
		sort.SliceStable(v.Ents, func(i, j int) bool { return less(v.Ents[i].K, v.Ents[j].K) })
	}
}

// LessLenFirst is the DAG-CBOR canonical order: shorter keys first, then bytewise.
func LessLenFirst(a, b string) bool {
	if len(a) != len(b) {
		return len(a) < len(b)
	}
	return a < b
}

// LessBytewise is plain bytewise order (DAG-JSON).
func LessBytewise(a, b string) bool { return a < b }

// Walk calls f on v and on every descendant (pre-order).
func (v V) Walk(f func(V)) {
	f(v)
	for _, it := range v.Items {
		it.Walk(f)
	}
	for _, e := range v.Ents {
		e.V.Walk(f)
	}
}

// Size is the number of values in the tree.
func (v V) Size() int {
	n := 0
	v.Walk(func(V) { n++ })
	return n
}

// Depth of the tree (scalar = 1).
func (v V) Depth() int {
	d := 0
	for _, it := range v.Items {
		if x := it.Depth(); x > d {
			d = x
		}
	}
	for _, e := range v.Ents {
		if x := e.V.Depth(); x > d {
			d = x
		}
	}
	return d + 1
}

// Has reports whether any value in the tree satisfies p.
func (v V) Has(p func(V) bool) bool {
	found := false
	v.Walk(func(x V) {
		if p(x) {
			found = true
		}
	})
	return found
}

// ---------------------------------------------------------------------------------------
// canonical text form (also the JSON form: a V marshals to a JSON string-free structure)

// AppendCanon appends an unambiguous serialisation (used for hashing and distinct counts).
func (v V) AppendCanon(b []byte) []byte {
	switch v.K {
	case Null:
		return append(b, 'n')
	case Absent:
		return append(b, 'a')
	case Bool:
		if v.B {
			return append(b, 't')
		}
		return append(b, 'f')
	case Int:
		b = append(b, 'i')
		b = strconv.AppendInt(b, v.I, 10)
		return append(b, ';')
	case Uint:
		b = append(b, 'u')
		b = strconv.AppendUint(b, v.U, 10)
		return append(b, ';')
	case Float:
		b = append(b, 'd')
		b = strconv.AppendUint(b, math.Float64bits(v.F), 16)
		return append(b, ';')
	case String, Bytes, Link:
		b = append(b, "sbl"[v.K-String])
		b = strconv.AppendInt(b, int64(len(v.S)), 10)
		b = append(b, ':')
		return append(b, v.S...)
	case List:
		b = append(b, '[')
		for _, it := range v.Items {
			b = it.AppendCanon(b)
		}
		return append(b, ']')
	case Map:
		b = append(b, '{')
		for _, e := range v.Ents {
			b = strconv.AppendInt(b, int64(len(e.K)), 10)
			b = append(b, ':')
			b = append(b, e.K...)
			b = e.V.AppendCanon(b)
		}
		return append(b, '}')
	}
	return append(b, '?')
}

func (v V) Hash() uint64 {
	h := fnv.New64a()
	h.Write(v.AppendCanon(nil))
	return h.Sum64()
}

func HashBytes(b []byte) uint64 {
	h := fnv.New64a()
	h.Write(b)
	return h.Sum64()
}

// Txt encodes a byte string readably and losslessly: printable ASCII as "s:..." else "x:hex".
func Txt(s string) string {
	for i := 0; i < len(s); i++ {
		if s[i] < 0x20 || s[i] > 0x7e {
			return "x:" + hex.EncodeToString([]byte(s))
		}
	}
	return "s:" + s
}

func UnTxt(t string) (string, error) {
	if strings.HasPrefix(t, "s:") {
		return t[2:], nil
	}
	if strings.HasPrefix(t, "x:") {
		b, err := hex.DecodeString(t[2:])
		return string(b), err
	}
	return "", fmt.Errorf("bad text form %q", t)
}

// String gives a compact human-readable form (diagnostics and evidence samples).
func (v V) String() string {
	var sb strings.Builder
	v.str(&sb)
	return sb.String()
}

func (v V) str(sb *strings.Builder) {
	switch v.K {
	case Null:
		sb.WriteString("null")
	case Absent:
		sb.WriteString("absent")
	case Bool:
		sb.WriteString(strconv.FormatBool(v.B))
	case Int:
		sb.WriteString(strconv.FormatInt(v.I, 10))
	case Uint:
		sb.WriteString(strconv.FormatUint(v.U, 10) + "u")
	case Float:
		sb.WriteString("f(" + strconv.FormatFloat(v.F, 'g', -1, 64) + ")")
	case String:
		sb.WriteString(strconv.Quote(Txt(v.S)))
	case Bytes:
		sb.WriteString("b'" + hex.EncodeToString([]byte(v.S)) + "'")
	case Link:
		sb.WriteString("link'" + hex.EncodeToString([]byte(v.S)) + "'")
	case List:
		sb.WriteByte('[')
		for i, it := range v.Items {
			if i > 0 {
				sb.WriteByte(',')
			}
			it.str(sb)
		}
		sb.WriteByte(']')
	case Map:
		sb.WriteByte('{')
		for i, e := range v.Ents {
			if i > 0 {
				sb.WriteByte(',')
			}
			sb.WriteString(strconv.Quote(Txt(e.K)))
			sb.WriteByte(':')
			e.V.str(sb)
		}
		sb.WriteByte('}')
	}
}

// Short is String truncated for logs.
func (v V) Short(n int) string {
	s := v.String()
	if len(s) > n {
		return s[:n] + "…(" + strconv.Itoa(len(s)) + ")"
	}
	return s
}

// ---------------------------------------------------------------------------------------
// JSON (replay files and evidence samples); lossless.

type jv struct {
	T string  `json:"t"`
	B *bool   `json:"b,omitempty"`
	I *int64  `json:"i,omitempty"`
	U *uint64 `json:"u,omitempty"`
	F *string `json:"f,omitempty"` // hex of the float64 bits, followed by "~" and a decimal rendering
	S *string `json:"s,omitempty"` // Txt form
	L []V     `json:"l,omitempty"`
	M []jent  `json:"m,omitempty"`
}

type jent struct {
	K string `json:"k"` // Txt form
	V V      `json:"v"`
}

func (v V) MarshalJSON() ([]byte, error) {
	j := jv{T: v.K.String()}
	switch v.K {
	case Bool:
		j.B = &v.B
	case Int:
		j.I = &v.I
	case Uint:
		j.U = &v.U
	case Float:
		s := strconv.FormatUint(math.Float64bits(v.F), 16) + "~" + strconv.FormatFloat(v.F, 'g', -1, 64)
		j.F = &s
	case String, Bytes, Link:
		s := Txt(v.S)
		j.S = &s
	case List:
		j.L = v.Items
		if j.L == nil {
			j.L = []V{}
		}
	case Map:
		j.M = make([]jent, len(v.Ents))
		for i, e := range v.Ents {
			j.M[i] = jent{Txt(e.K), e.V}
		}
	}
	return json.Marshal(j)
}

func (v *V) UnmarshalJSON(b []byte) error {
	var j jv
	if err := json.Unmarshal(b, &j); err != nil {
		return err
	}
	*v = V{}
	k := -1
	for i, n := range kindNames {
		if n == j.T {
			k = i
		}
	}
	if k < 0 {
		return fmt.Errorf("bad kind %q", j.T)
	}
	v.K = Kind(k)
	switch v.K {
	case Bool:
		if j.B != nil {
			v.B = *j.B
		}
	case Int:
		if j.I != nil {
			v.I = *j.I
		}
	case Uint:
		if j.U != nil {
			v.U = *j.U
		}
	case Float:
		if j.F == nil {
			return fmt.Errorf("float without bits")
		}
		hx := *j.F
		if i := strings.IndexByte(hx, '~'); i >= 0 {
			hx = hx[:i]
		}
		u, err := strconv.ParseUint(hx, 16, 64)
		if err != nil {
			return err
		}
		v.F = math.Float64frombits(u)
	case String, Bytes, Link:
		if j.S == nil {
			return fmt.Errorf("missing s")
		}
		s, err := UnTxt(*j.S)
		if err != nil {
			return err
		}
		v.S = s
	case List:
		v.Items = j.L
	case Map:
		v.Ents = make([]Ent, len(j.M))
		for i, e := range j.M {
			k, err := UnTxt(e.K)
			if err != nil {
				return err
			}
			v.Ents[i] = Ent{k, e.V}
		}
	}
	return nil
}

// Mutate returns a copy of v with one local change at the at-th value (pre-order), chosen
// by how: scalar tweak, kind change, dropped / added entry, two entries swapped.
// The result always differs from v under Ordered equality, unless ok is false.
func Mutate(v V, at, how int) (out V, ok bool) {
	c := v.Clone()
	n := 0
	var done bool
	var rec func(x *V)
	rec = func(x *V) {
		if done {
			return
		}
		if n == at {
			done = true
			ok = mutateHere(x, how)
			return
		}
		n++
		for i := range x.Items {
			rec(&x.Items[i])
		}
		for i := range x.Ents {
			rec(&x.Ents[i].V)
		}
	}
	rec(&c)
	return c, ok && !Equal(c, v, Ordered)
}

func mutateHere(x *V, how int) bool {
	switch x.K {
	case List:
		switch how % 4 {
		case 0:
			if len(x.Items) > 0 {
				x.Items = x.Items[:len(x.Items)-1]
				return true
			}
		case 1:
			if len(x.Items) >= 2 {
				i := (how / 4) % (len(x.Items) - 1)
				x.Items[i], x.Items[i+1] = x.Items[i+1], x.Items[i]
				return true
			}
		case 2:
			*x = V{K: Map, Ents: []Ent{}}
			return true
		}
		x.Items = append(x.Items, MkInt(int64(how)))
		return true
	case Map:
		switch how % 4 {
		case 0:
			if len(x.Ents) > 0 {
				i := (how / 4) % len(x.Ents)
				x.Ents = append(x.Ents[:i:i], x.Ents[i+1:]...)
				return true
			}
		case 1:
			if len(x.Ents) >= 2 {
				i := (how / 4) % (len(x.Ents) - 1)
				x.Ents[i], x.Ents[i+1] = x.Ents[i+1], x.Ents[i]
				return true
			}
		case 2:
			if len(x.Ents) > 0 {
				// rename one key
				i := (how / 4) % len(x.Ents)
				nk := x.Ents[i].K + "'"
				if _, dup := x.Get(nk); !dup {
					x.Ents[i].K = nk
					return true
				}
			}
		}
		nk := "added"
		for {
			if _, dup := x.Get(nk); !dup {
				break
			}
			nk += "_"
		}
		x.Ents = append(x.Ents, Ent{nk, MkNull()})
		return true
	case Null:
		*x = MkBool(false)
	case Bool:
		if how%2 == 0 {
			x.B = !x.B
		} else {
			*x = MkInt(0)
		}
	case Int:
		switch how % 3 {
		case 0:
			x.I = x.I ^ 1
		case 1:
			*x = MkFloat(float64(x.I))
		default:
			*x = MkString(strconv.FormatInt(x.I, 10))
		}
	case Uint:
		x.U = x.U ^ 1
		if x.U <= math.MaxInt64 {
			*x = MkInt(int64(x.U))
		}
	case Float:
		if how%2 == 0 {
			x.F = math.Float64frombits(math.Float64bits(x.F) ^ 1)
			if math.IsNaN(x.F) || math.IsInf(x.F, 0) {
				x.F = 0.25
			}
		} else {
			*x = MkInt(int64(how))
		}
	case String:
		switch how % 3 {
		case 0:
			x.S += "x"
		case 1:
			*x = MkBytes([]byte(x.S))
		default:
			if len(x.S) > 0 {
				x.S = x.S[:len(x.S)-1]
			} else {
				x.S = "\x00"
			}
		}
	case Bytes:
		if how%2 == 0 {
			x.S += "\x00"
		} else {
			*x = MkString(x.S)
		}
	case Link:
		alt := "\x01\x55\x12\x20" + strings.Repeat("\x00", 32)
		if x.S == alt {
			alt = "\x01\x55\x12\x20" + strings.Repeat("\x01", 32)
		}
		x.S = alt
	default:
		return false
	}
	return true
}

// Diff describes the first difference between a and b (Ordered), or "" when equal.
func Diff(a, b V) string {
	return diff(a, b, "")
}

func diff(a, b V, path string) string {
	if Equal(a, b, Ordered) {
		return ""
	}
	if a.K == b.K {
		switch a.K {
		case List:
			if len(a.Items) == len(b.Items) {
				for i := range a.Items {
					if d := diff(a.Items[i], b.Items[i], path+"/"+strconv.Itoa(i)); d != "" {
						return d
					}
				}
			}
		case Map:
			if len(a.Ents) == len(b.Ents) {
				for i := range a.Ents {
					if a.Ents[i].K != b.Ents[i].K {
						return fmt.Sprintf("at %q entry %d: key %q vs %q", path, i, Txt(a.Ents[i].K), Txt(b.Ents[i].K))
					}
					if d := diff(a.Ents[i].V, b.Ents[i].V, path+"/"+Txt(a.Ents[i].K)); d != "" {
						return d
					}
				}
			}
		}
	}
	return fmt.Sprintf("at %q: %s vs %s", path, a.Short(160), b.Short(160))
}
