// Package refsel is an independent reference for IPLD selectors: a plain-data AST, a
// generator, an encoder of the AST into the selector spec (as an abstract value), and a
// big-step interpreter over abstract block graphs written in "active thread" style — it
// never builds derived selectors, unlike the implementation under test.
package refsel

import (
	"strconv"

	"verif/graph"
	"verif/val"
)

type Sel struct {
	K       string  `json:"k"`                // match | all | fields | index | range | union | rec | edge
	Subset  []int64 `json:"subset,omitempty"` // [from, to] for match
	Next    *Sel    `json:"next,omitempty"`
	Fields  []Field `json:"fields,omitempty"`
	I       int64   `json:"i,omitempty"`
	Lo      int64   `json:"lo,omitempty"`
	Hi      int64   `json:"hi,omitempty"`
	Members []Sel   `json:"members,omitempty"`
	Limit   int64   `json:"limit,omitempty"` // rec: depth limit, -1 = none
	Seq     *Sel    `json:"seq,omitempty"`
	StopAt  string  `json:"stop_at,omitempty"` // rec: val.Txt form of a binary CID, "" = none
}

type Field struct {
	Name string `json:"name"`
	Sel  Sel    `json:"sel"`
}

func Match() Sel                       { return Sel{K: "match"} }
func MatchSubset(from, to int64) Sel   { return Sel{K: "match", Subset: []int64{from, to}} }
func All(next Sel) Sel                 { return Sel{K: "all", Next: &next} }
func Index(i int64, next Sel) Sel      { return Sel{K: "index", I: i, Next: &next} }
func Range(lo, hi int64, next Sel) Sel { return Sel{K: "range", Lo: lo, Hi: hi, Next: &next} }
func Union(ms ...Sel) Sel              { return Sel{K: "union", Members: ms} }
func Rec(limit int64, seq Sel) Sel     { return Sel{K: "rec", Limit: limit, Seq: &seq} }
func Edge() Sel                        { return Sel{K: "edge"} }
func Fields(fs ...Field) Sel           { return Sel{K: "fields", Fields: fs} }

func (s Sel) stopCid() string {
	if s.StopAt == "" {
		return ""
	}
	c, _ := val.UnTxt(s.StopAt)
	return c
}

// String renders the selector compactly.
func (s Sel) String() string {
	switch s.K {
	case "match":
		if s.Subset != nil {
			return "m[" + strconv.FormatInt(s.Subset[0], 10) + ":" + strconv.FormatInt(s.Subset[1], 10) + "]"
		}
		return "m"
	case "all":
		return "*(" + s.Next.String() + ")"
	case "index":
		return "i" + strconv.FormatInt(s.I, 10) + "(" + s.Next.String() + ")"
	case "range":
		return "r" + strconv.FormatInt(s.Lo, 10) + ".." + strconv.FormatInt(s.Hi, 10) + "(" + s.Next.String() + ")"
	case "fields":
		out := "f{"
		for i, f := range s.Fields {
			if i > 0 {
				out += ","
			}
			out += strconv.Quote(f.Name) + ":" + f.Sel.String()
		}
		return out + "}"
	case "union":
		out := "|["
		for i, m := range s.Members {
			if i > 0 {
				out += ","
			}
			out += m.String()
		}
		return out + "]"
	case "rec":
		l := "none"
		if s.Limit != -1 {
			l = strconv.FormatInt(s.Limit, 10)
		}
		st := ""
		if s.StopAt != "" {
			st = ",stop"
		}
		return "R(" + l + st + "," + s.Seq.String() + ")"
	case "edge":
		return "@"
	}
	return "?"
}

// Kinds is the set of clause kinds used.
func (s Sel) Kinds(into map[string]bool) {
	k := s.K
	if k == "match" && s.Subset != nil {
		k = "match-subset"
	}
	if k == "rec" && s.StopAt != "" {
		into["stop-at"] = true
	}
	into[k] = true
	if s.Next != nil {
		s.Next.Kinds(into)
	}
	if s.Seq != nil {
		s.Seq.Kinds(into)
	}
	for _, f := range s.Fields {
		f.Sel.Kinds(into)
	}
	for _, m := range s.Members {
		m.Kinds(into)
	}
}

// Spec encodes the selector as the selector-spec data (an abstract value).
func (s Sel) Spec() val.V {
	m := func(k string, v val.V) val.V { return val.MkMap(val.Ent{K: k, V: v}) }
	switch s.K {
	case "match":
		body := val.MkMap()
		if s.Subset != nil {
			body = val.MkMap(val.Ent{K: "subset", V: val.MkMap(val.Ent{K: "[", V: val.MkInt(s.Subset[0])}, val.Ent{K: "]", V: val.MkInt(s.Subset[1])})})
		}
		return m(".", body)
	case "all":
		return m("a", val.MkMap(val.Ent{K: ">", V: s.Next.Spec()}))
	case "index":
		return m("i", val.MkMap(val.Ent{K: "i", V: val.MkInt(s.I)}, val.Ent{K: ">", V: s.Next.Spec()}))
	case "range":
		return m("r", val.MkMap(val.Ent{K: "^", V: val.MkInt(s.Lo)}, val.Ent{K: "$", V: val.MkInt(s.Hi)}, val.Ent{K: ">", V: s.Next.Spec()}))
	case "fields":
		fs := val.V{K: val.Map, Ents: []val.Ent{}}
		for _, f := range s.Fields {
			fs.Ents = append(fs.Ents, val.Ent{K: f.Name, V: f.Sel.Spec()})
		}
		return m("f", val.MkMap(val.Ent{K: "f>", V: fs}))
	case "union":
		l := val.V{K: val.List, Items: []val.V{}}
		for _, x := range s.Members {
			l.Items = append(l.Items, x.Spec())
		}
		return m("|", l)
	case "rec":
		var lim val.V
		if s.Limit != -1 {
			lim = m("depth", val.MkInt(s.Limit))
		} else {
			lim = m("none", val.MkMap())
		}
		body := val.MkMap(val.Ent{K: "l", V: lim}, val.Ent{K: ":>", V: s.Seq.Spec()})
		if s.StopAt != "" {
			body.Ents = append(body.Ents, val.Ent{K: "!", V: m("/", val.MkLink(s.stopCid()))})
		}
		return m("R", body)
	case "edge":
		return m("@", val.MkMap())
	}
	return val.MkNull()
}

// ---------------------------------------------------------------------------------------
// reference interpreter

type Visit struct {
	Path   string `json:"path"`
	Reason string `json:"reason"` // "m" match, "x" candidate
	Value  val.V  `json:"value"`
}

type Result struct {
	Visits []Visit
	Loads  []string // binary CIDs in load order
	Err    string   // non-empty when the reference walk hits a missing link target
	// bookkeeping for the traversal-control relations (C15)
	LoadPath     []string   // path (joined) at which each load happened
	LoadSegs     [][]string // the same as segment lists
	VisitsBefore []int      // number of visits made before each load
	Recursed     bool       // some recursive edge was actually followed
}

type recCtx struct {
	r   *Sel
	rem int64 // remaining depth, -1 = none
}

type thread struct {
	c   *Sel
	ctx []recCtx
}

type interp struct {
	store map[string]val.V
	res   *Result
	skip  map[string]bool // links whose blocks the loader skips (C15)
	once  bool            // visit links only once (C15)
	seen  map[string]bool
}

func (in *interp) enter(s *Sel, ctx []recCtx) []thread {
	switch s.K {
	case "union":
		var out []thread
		for i := range s.Members {
			out = append(out, in.enter(&s.Members[i], ctx)...)
		}
		return out
	case "rec":
		nc := append(append([]recCtx{}, ctx...), recCtx{s, s.Limit})
		return in.enter(s.Seq, nc)
	case "edge":
		if len(ctx) == 0 {
			return nil
		}
		top := ctx[len(ctx)-1]
		if top.rem >= 0 && top.rem < 2 {
			return nil
		}
		rem := top.rem
		if rem >= 0 {
			rem--
		}
		in.res.Recursed = true
		nc := append(append([]recCtx{}, ctx[:len(ctx)-1]...), recCtx{top.r, rem})
		return in.enter(top.r.Seq, nc)
	}
	return []thread{{s, ctx}}
}

// SliceBounds is the documented subset rule: [from, to) with negative offsets from the end.
func SliceBounds(from, to, length int64) (bool, int64, int64) {
	if to < 0 {
		to += length
	} else if to > length {
		to = length
	}
	if from < 0 {
		from += length
		if from < 0 {
			from = 0
		}
	}
	if from > to || from >= length {
		return false, 0, 0
	}
	return true, from, to
}

func matchValue(c *Sel, v val.V) (val.V, bool) {
	if c.Subset == nil {
		return v, true
	}
	if v.K != val.String && v.K != val.Bytes {
		return val.V{}, false
	}
	ok, from, to := SliceBounds(c.Subset[0], c.Subset[1], int64(len(v.S)))
	if !ok {
		return val.V{}, false
	}
	return val.V{K: v.K, S: v.S[from:to]}, true
}

func join(path []string) string {
	out := ""
	for i, s := range path {
		if i > 0 {
			out += "/"
		}
		out += s
	}
	return out
}

func (in *interp) step(t thread, node val.V, seg string, child val.V) []thread {
	for _, rc := range t.ctx {
		if st := rc.r.stopCid(); st != "" && child.K == val.Link && child.S == st {
			return nil
		}
	}
	c := t.c
	switch c.K {
	case "all":
		return in.enter(c.Next, t.ctx)
	case "fields":
		for i := range c.Fields {
			if c.Fields[i].Name == seg {
				return in.enter(&c.Fields[i].Sel, t.ctx)
			}
		}
	case "index":
		if node.K == val.List {
			if i, err := strconv.ParseInt(seg, 10, 64); err == nil && i == c.I {
				return in.enter(c.Next, t.ctx)
			}
		}
	case "range":
		if node.K == val.List {
			if i, err := strconv.ParseInt(seg, 10, 64); err == nil && i >= c.Lo && i < c.Hi {
				return in.enter(c.Next, t.ctx)
			}
		}
	}
	return nil
}

func (in *interp) walk(node val.V, path []string, threads []thread) bool {
	v := Visit{Path: join(path), Reason: "x", Value: node}
	for _, t := range threads {
		if t.c.K == "match" {
			if mv, ok := matchValue(t.c, node); ok {
				v.Reason, v.Value = "m", mv
				break
			}
		}
	}
	in.res.Visits = append(in.res.Visits, v)
	if node.K != val.Map && node.K != val.List {
		return true
	}
	var order []string
	all := false
	for _, t := range threads {
		if t.c.K == "all" {
			all = true
		}
	}
	if all {
		for _, e := range graph.Children(node) {
			order = append(order, e.K)
		}
	} else {
		seen := map[string]bool{}
		add := func(s string) {
			if !seen[s] {
				seen[s] = true
				order = append(order, s)
			}
		}
		for _, t := range threads {
			switch t.c.K {
			case "fields":
				for _, f := range t.c.Fields {
					add(f.Name)
				}
			case "index":
				add(strconv.FormatInt(t.c.I, 10))
			case "range":
				for i := t.c.Lo; i < t.c.Hi; i++ {
					add(strconv.FormatInt(i, 10))
				}
			}
		}
	}
	for _, seg := range order {
		child, ok := graph.Seg(node, seg)
		if !ok {
			continue
		}
		var next []thread
		for _, t := range threads {
			next = append(next, in.step(t, node, seg, child)...)
		}
		if len(next) == 0 {
			continue
		}
		cp := append(append([]string{}, path...), seg)
		if child.K == val.Link {
			if in.once {
				if in.seen[child.S] {
					continue
				}
				in.seen[child.S] = true
			}
			in.res.Loads = append(in.res.Loads, child.S)
			in.res.LoadSegs = append(in.res.LoadSegs, cp)
			in.res.LoadPath = append(in.res.LoadPath, join(cp))
			in.res.VisitsBefore = append(in.res.VisitsBefore, len(in.res.Visits))
			if in.skip[child.S] {
				continue
			}
			b, ok := in.store[child.S]
			if !ok {
				in.res.Err = "missing block at " + join(cp)
				return false
			}
			child = b
		}
		if !in.walk(child, cp, next) {
			return false
		}
	}
	return true
}

// Walk evaluates the selector on the graph.
func Walk(g graph.Graph, s Sel) Result {
	return WalkSkipping(g, s, nil)
}

// WalkSkipping is Walk with a loader that skips the given links (their subtrees vanish).
func WalkSkipping(g graph.Graph, s Sel, skip map[string]bool) Result {
	var res Result
	in := &interp{store: g.Store(), res: &res, skip: skip}
	in.walk(g.Root, nil, in.enter(&s, nil))
	return res
}

// WalkOnce is Walk where a link that was already loaded once is not followed again.
func WalkOnce(g graph.Graph, s Sel) Result {
	var res Result
	in := &interp{store: g.Store(), res: &res, once: true, seen: map[string]bool{}}
	in.walk(g.Root, nil, in.enter(&s, nil))
	return res
}

// ---------------------------------------------------------------------------------------
// selector-driven transform

// TransformResult is the reference outcome of a walking transform with function f.
type TransformResult struct {
	Relinked  val.V   // the property's semantics: changed blocks stored, parents re-linked
	NewBlocks []val.V // blocks the relinked result refers to (transformed content)
	Inlined   val.V   // the same tree with every crossed block inlined in place of its link
	Crossed   bool    // some link was crossed
	Targets   []Visit // (path, value) handed to f, in order
}

type xform struct {
	in  *interp
	f   func(val.V) val.V
	res *TransformResult
	// keep: the transform function answers these nodes with the very node it was given ("no change"); the walk
	// then continues below them as if they had not been matched
	keep func(val.V) bool
}

// TransformKeeping is Transform for a function that hands back the node it was given wherever keep says so:
// such a node counts as not replaced, and the walk goes on into its children.
func TransformKeeping(g graph.Graph, s Sel, f func(val.V) val.V, keep func(val.V) bool) TransformResult {
	var res TransformResult
	var dummy Result
	in := &interp{store: g.Store(), res: &dummy}
	x := &xform{in: in, f: f, res: &res, keep: keep}
	res.Relinked, res.Inlined = x.walk(g.Root, nil, in.enter(&s, nil))
	return res
}

// Transform replaces, top-down, every node at which some active clause is a matcher by
// f(node) and does not descend below a replaced node.
func Transform(g graph.Graph, s Sel, f func(val.V) val.V) TransformResult {
	var res TransformResult
	var dummy Result
	in := &interp{store: g.Store(), res: &dummy}
	x := &xform{in: in, f: f, res: &res}
	res.Relinked, res.Inlined = x.walk(g.Root, nil, in.enter(&s, nil))
	return res
}

func (x *xform) walk(node val.V, path []string, threads []thread) (val.V, val.V) {
	for _, t := range threads {
		if t.c.K == "match" {
			x.res.Targets = append(x.res.Targets, Visit{Path: join(path), Reason: "m", Value: node})
			if x.keep != nil && x.keep(node) {
				break
			}
			r := x.f(node)
			return r, r
		}
	}
	if node.K != val.Map && node.K != val.List {
		return node, node
	}
	rel := val.V{K: node.K}
	inl := val.V{K: node.K}
	for _, e := range graph.Children(node) {
		child := e.V
		var next []thread
		for _, t := range threads {
			// a clause only continues into children it is interested in
			next = append(next, x.in.step(t, node, e.K, child)...)
		}
		cr, ci := child, child
		if len(next) > 0 {
			cp := append(append([]string{}, path...), e.K)
			if child.K == val.Link {
				if b, ok := x.in.store[child.S]; ok {
					x.res.Crossed = true
					br, bi := x.walk(b, cp, next)
					x.res.NewBlocks = append(x.res.NewBlocks, br)
					cr, ci = val.MkLink(graph.Relink(child.S, br)), bi
				}
			} else {
				cr, ci = x.walk(child, cp, next)
			}
		}
		if node.K == val.Map {
			rel.Ents = append(rel.Ents, val.Ent{K: e.K, V: cr})
			inl.Ents = append(inl.Ents, val.Ent{K: e.K, V: ci})
		} else {
			rel.Items = append(rel.Items, cr)
			inl.Items = append(inl.Items, ci)
		}
	}
	if rel.K == val.Map && rel.Ents == nil {
		rel.Ents, inl.Ents = []val.Ent{}, []val.Ent{}
	}
	if rel.K == val.List && rel.Items == nil {
		rel.Items, inl.Items = []val.V{}, []val.V{}
	}
	return rel, inl
}
