package refsel

import (
	"pgregory.net/rapid"

	"verif/val"
)

var fieldNames = []string{"a", "b", "c", "d", "e", "f", "0", "1", "2", "aa", "ab", "x", "l", "lnk"}

// GenOpts steer the selector generator. The constraints it maintains are the ones under which
// the selector semantics are unambiguous (DESIGN.md Appendix A): depth limits ≥ 1; every
// recursive edge sits below at least one exploring clause of its recursion, and all edges of
// one recursion sit below the same number of exploring clauses; ranges have lo < hi; subset
// bounds satisfy to < 0 or from ≤ to; a stop-at condition only with limit "none".
type GenOpts struct {
	Depth int
	Links []string // candidate stop-at links (binary CIDs)
	Names []string // field names to prefer (the keys that occur in the graph)
}

func Draw(t *rapid.T, o GenOpts) Sel {
	return drawSel(t, o, o.Depth)
}

func drawMatcher(t *rapid.T) Sel {
	if rapid.IntRange(0, 2).Draw(t, "subset") == 0 {
		from := int64(rapid.IntRange(-6, 6).Draw(t, "from"))
		to := int64(rapid.IntRange(-6, 8).Draw(t, "to"))
		if to >= 0 && from > to {
			from, to = to, from
		}
		return MatchSubset(from, to)
	}
	return Match()
}

func drawSel(t *rapid.T, o GenOpts, d int) Sel {
	if d <= 0 {
		return drawMatcher(t)
	}
	switch rapid.IntRange(0, 11).Draw(t, "clause") {
	case 10, 11:
		if d >= 2 {
			return drawRec(t, o, d)
		}
		return All(drawSel(t, o, d-1))
	case 0:
		return drawMatcher(t)
	case 1, 2:
		return All(drawSel(t, o, d-1))
	case 3, 4:
		return drawFields(t, o, d, nil)
	case 5:
		return Index(int64(rapid.IntRange(0, 4).Draw(t, "idx")), drawSel(t, o, d-1))
	case 6:
		lo := int64(rapid.IntRange(0, 3).Draw(t, "lo"))
		return Range(lo, lo+int64(rapid.IntRange(1, 4).Draw(t, "span")), drawSel(t, o, d-1))
	case 7:
		n := rapid.IntRange(2, 3).Draw(t, "nmembers")
		ms := make([]Sel, n)
		for i := range ms {
			ms[i] = drawSel(t, o, d-1)
		}
		return Union(ms...)
	default:
		return drawRec(t, o, d)
	}
}

// drawFields draws a fields clause; when chain is non-nil one of the fields continues with it.
func drawFields(t *rapid.T, o GenOpts, d int, chain *Sel) Sel {
	n := rapid.IntRange(1, 3).Draw(t, "nfields")
	seen := map[string]bool{}
	var fs []Field
	for i := 0; i < n; i++ {
		names := fieldNames
		if len(o.Names) > 0 && rapid.IntRange(0, 3).Draw(t, "graphname") > 0 {
			names = o.Names
		}
		name := rapid.SampledFrom(names).Draw(t, "fname")
		if seen[name] {
			continue
		}
		seen[name] = true
		if chain != nil && i == 0 {
			fs = append(fs, Field{name, *chain})
		} else if chain != nil && rapid.Bool().Draw(t, "chainagain") {
			fs = append(fs, Field{name, *chain})
		} else {
			fs = append(fs, Field{name, drawSel(t, o, d-1)})
		}
	}
	return Fields(fs...)
}

func drawRec(t *rapid.T, o GenOpts, d int) Sel {
	limit := int64(-1)
	if rapid.IntRange(0, 3).Draw(t, "limited") > 0 {
		limit = int64(rapid.IntRange(1, 4).Draw(t, "depth"))
	}
	k := rapid.IntRange(1, 2).Draw(t, "levels")
	// level 0: the edge, possibly in a union with a matcher
	cur := Edge()
	switch rapid.IntRange(0, 3).Draw(t, "edgeform") {
	case 1:
		cur = Union(drawMatcher(t), Edge())
	case 2:
		cur = Union(Edge(), drawMatcher(t))
	}
	for lvl := 1; lvl <= k; lvl++ {
		var e Sel
		switch rapid.IntRange(0, 5).Draw(t, "explorer") {
		case 0, 1, 2:
			e = All(cur)
		case 3:
			c := cur
			e = drawFields(t, o, d-1, &c)
		case 4:
			e = Index(int64(rapid.IntRange(0, 3).Draw(t, "idx")), cur)
		default:
			lo := int64(rapid.IntRange(0, 2).Draw(t, "lo"))
			e = Range(lo, lo+int64(rapid.IntRange(1, 4).Draw(t, "span")), cur)
		}
		// optional union with extras that carry no edge of this recursion
		if rapid.IntRange(0, 2).Draw(t, "extras") == 0 {
			extra := drawMatcher(t)
			if d >= 2 && rapid.Bool().Draw(t, "deepextra") {
				extra = drawSel(t, o, d-2)
			}
			if rapid.Bool().Draw(t, "extrafirst") {
				e = Union(extra, e)
			} else {
				e = Union(e, extra)
			}
		}
		cur = e
	}
	r := Rec(limit, cur)
	if limit < 0 && len(o.Links) > 0 && rapid.IntRange(0, 2).Draw(t, "stopat") == 0 {
		r.StopAt = val.Txt(rapid.SampledFrom(o.Links).Draw(t, "stoplink"))
	}
	return r
}

// DrawWild draws selector ASTs WITHOUT the constraints of Draw: any integers (boundary
// values, negative depths and indices, huge ranges, inverted subsets), recursive edges
// anywhere (also outside any recursion, as the whole sequence, or directly under a union
// in the sequence), recursions nested in recursions. Used for the totality checks (C10).
func DrawWild(t *rapid.T, depth int, links []string) Sel {
	wildInt := func(label string) int64 {
		switch rapid.IntRange(0, 3).Draw(t, label+".mode") {
		case 0:
			return int64(rapid.IntRange(-3, 6).Draw(t, label))
		case 1:
			return rapid.SampledFrom([]int64{0, -1, 1, 1 << 31, 1<<31 - 1, 1 << 32, 1 << 40, 1<<62 + 5, 1<<63 - 1, -1 << 63, -1<<63 + 1, 1 << 20, 100000}).Draw(t, label)
		default:
			return int64(rapid.IntRange(0, 4).Draw(t, label))
		}
	}
	if depth <= 0 {
		switch rapid.IntRange(0, 3).Draw(t, "leaf") {
		case 0:
			return Edge()
		case 1:
			return MatchSubset(wildInt("from"), wildInt("to"))
		}
		return Match()
	}
	switch rapid.IntRange(0, 8).Draw(t, "clause") {
	case 0:
		return Match()
	case 1:
		return All(DrawWild(t, depth-1, links))
	case 2:
		n := rapid.IntRange(0, 3).Draw(t, "nfields")
		var fs []Field
		seen := map[string]bool{}
		for i := 0; i < n; i++ {
			name := rapid.SampledFrom([]string{"a", "b", "0", "1", "00", "+1", "-1", "", "/", "l", "x"}).Draw(t, "fname")
			if seen[name] {
				continue
			}
			seen[name] = true
			fs = append(fs, Field{name, DrawWild(t, depth-1, links)})
		}
		return Fields(fs...)
	case 3:
		return Index(wildInt("idx"), DrawWild(t, depth-1, links))
	case 4:
		return Range(wildInt("lo"), wildInt("hi"), DrawWild(t, depth-1, links))
	case 5:
		n := rapid.IntRange(0, 3).Draw(t, "nmembers")
		ms := make([]Sel, n)
		for i := range ms {
			ms[i] = DrawWild(t, depth-1, links)
		}
		return Union(ms...)
	case 6:
		return Edge()
	default:
		seq := DrawWild(t, depth-1, links)
		// degenerate sequences: an edge that is reachable without consuming a path segment
		switch rapid.IntRange(0, 5).Draw(t, "degenerate") {
		case 0:
			seq = Union(Edge(), seq)
		case 1:
			seq = Union(seq, Edge())
		case 2:
			seq = Union(Union(Match(), Edge()), All(seq))
		}
		r := Rec(wildInt("limit"), seq)
		if rapid.Bool().Draw(t, "nolimit") {
			r.Limit = -1
		}
		if len(links) > 0 && rapid.IntRange(0, 2).Draw(t, "stop") == 0 {
			r.StopAt = val.Txt(rapid.SampledFrom(links).Draw(t, "stoplink"))
		}
		return r
	}
}
