package nodes

import (
	"github.com/ipld/go-ipld-prime/datamodel"
)

// Proxy wraps a NodeBuilder and observes what a decoder asks of it: the maximum nesting depth
// of Begin calls and the largest size hint.
type Proxy struct {
	Inner    datamodel.NodeBuilder
	MaxDepth int
	MaxHint  int64
	Begins   int
}

func NewProxy(inner datamodel.NodeBuilder) *Proxy { return &Proxy{Inner: inner} }

func (p *Proxy) Builder() datamodel.NodeBuilder {
	return &proxyBuilder{proxyNA{p: p, na: p.Inner, depth: 0}}
}

type proxyNA struct {
	p     *Proxy
	na    datamodel.NodeAssembler
	depth int
}

type proxyBuilder struct{ proxyNA }

func (b *proxyBuilder) Build() datamodel.Node { return b.p.Inner.Build() }
func (b *proxyBuilder) Reset()                { b.p.Inner.Reset() }

func (a proxyNA) note(hint int64) {
	a.p.Begins++
	if a.depth+1 > a.p.MaxDepth {
		a.p.MaxDepth = a.depth + 1
	}
	if hint > a.p.MaxHint {
		a.p.MaxHint = hint
	}
}

func (a proxyNA) BeginMap(sizeHint int64) (datamodel.MapAssembler, error) {
	a.note(sizeHint)
	ma, err := a.na.BeginMap(sizeHint)
	if err != nil {
		return nil, err
	}
	return proxyMA{a.p, ma, a.depth + 1}, nil
}
func (a proxyNA) BeginList(sizeHint int64) (datamodel.ListAssembler, error) {
	a.note(sizeHint)
	la, err := a.na.BeginList(sizeHint)
	if err != nil {
		return nil, err
	}
	return proxyLA{a.p, la, a.depth + 1}, nil
}
func (a proxyNA) AssignNull() error                  { return a.na.AssignNull() }
func (a proxyNA) AssignBool(v bool) error            { return a.na.AssignBool(v) }
func (a proxyNA) AssignInt(v int64) error            { return a.na.AssignInt(v) }
func (a proxyNA) AssignFloat(v float64) error        { return a.na.AssignFloat(v) }
func (a proxyNA) AssignString(v string) error        { return a.na.AssignString(v) }
func (a proxyNA) AssignBytes(v []byte) error         { return a.na.AssignBytes(v) }
func (a proxyNA) AssignLink(v datamodel.Link) error  { return a.na.AssignLink(v) }
func (a proxyNA) AssignNode(v datamodel.Node) error  { return a.na.AssignNode(v) }
func (a proxyNA) Prototype() datamodel.NodePrototype { return a.na.Prototype() }

type proxyMA struct {
	p     *Proxy
	ma    datamodel.MapAssembler
	depth int
}

func (m proxyMA) AssembleKey() datamodel.NodeAssembler {
	return proxyNA{m.p, m.ma.AssembleKey(), m.depth}
}
func (m proxyMA) AssembleValue() datamodel.NodeAssembler {
	return proxyNA{m.p, m.ma.AssembleValue(), m.depth}
}
func (m proxyMA) AssembleEntry(k string) (datamodel.NodeAssembler, error) {
	va, err := m.ma.AssembleEntry(k)
	if err != nil {
		return nil, err
	}
	return proxyNA{m.p, va, m.depth}, nil
}
func (m proxyMA) Finish() error                                   { return m.ma.Finish() }
func (m proxyMA) KeyPrototype() datamodel.NodePrototype           { return m.ma.KeyPrototype() }
func (m proxyMA) ValuePrototype(k string) datamodel.NodePrototype { return m.ma.ValuePrototype(k) }

type proxyLA struct {
	p     *Proxy
	la    datamodel.ListAssembler
	depth int
}

func (l proxyLA) AssembleValue() datamodel.NodeAssembler {
	return proxyNA{l.p, l.la.AssembleValue(), l.depth}
}
func (l proxyLA) Finish() error                                  { return l.la.Finish() }
func (l proxyLA) ValuePrototype(i int64) datamodel.NodePrototype { return l.la.ValuePrototype(i) }
