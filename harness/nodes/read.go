package nodes

import (
	"errors"
	"fmt"
	"io"
	"math"
	"strconv"

	"github.com/ipld/go-ipld-prime/datamodel"
	"github.com/ipld/go-ipld-prime/node/basicnode"

	"verif/val"
)

// Reader reads a node into an abstract value using only the public Node API and, while
// doing so, checks that the different read paths agree with one another.
type Reader struct {
	Lookups   bool // check every lookup form against the iterator
	WrongKind bool // check that kind-inappropriate accessors give ErrWrongKind (never panic)
	Typed     bool // typed node: absent values are legal and read as val.Absent
	// LenientKeyNode: LookupByNode with a plain basicnode string may be refused with an error by
	// maps that insist on key nodes of their own key type (typed maps and their representations)
	LenientKeyNode bool
	// ListIdxLoose: do not require list iterator indices to be 0..n-1 (never set by default)
	MaxNodes int // safety valve
	count    int
}

var Plain = Reader{}
var Full = Reader{Lookups: true, WrongKind: true}
var FullTyped = Reader{Lookups: true, WrongKind: true, Typed: true, LenientKeyNode: true}

// FullRepr reads the representation node of a typed node.
var FullRepr = Reader{Lookups: true, WrongKind: true, LenientKeyNode: true}

// Read reads n. Any inconsistency or panic is returned as an error.
func (r Reader) Read(n datamodel.Node) (v val.V, err error) {
	defer func() {
		if rec := recover(); rec != nil {
			err = fmt.Errorf("PANIC while reading: %v", rec)
		}
	}()
	rr := r
	if rr.MaxNodes == 0 {
		rr.MaxNodes = 2_000_000
	}
	return rr.read(n, "")
}

func Read(n datamodel.Node) (val.V, error) { return Plain.Read(n) }

func (r *Reader) read(n datamodel.Node, path string) (val.V, error) {
	if n == nil {
		return val.V{}, fmt.Errorf("at %q: nil node", path)
	}
	r.count++
	if r.count > r.MaxNodes {
		return val.V{}, fmt.Errorf("at %q: more than %d nodes", path, r.MaxNodes)
	}
	k := n.Kind()
	if r.WrongKind {
		if err := CheckWrongKind(n); err != nil {
			return val.V{}, fmt.Errorf("at %q: %w", path, err)
		}
	}
	if n.IsAbsent() {
		if !r.Typed {
			return val.V{}, fmt.Errorf("at %q: absent node in untyped data", path)
		}
		if k != datamodel.Kind_Null {
			return val.V{}, fmt.Errorf("at %q: absent node has kind %v", path, k)
		}
		return val.MkAbsent(), nil
	}
	if n.IsNull() != (k == datamodel.Kind_Null) {
		return val.V{}, fmt.Errorf("at %q: IsNull=%v but kind %v", path, n.IsNull(), k)
	}
	switch k {
	case datamodel.Kind_Null:
		return val.MkNull(), nil
	case datamodel.Kind_Bool:
		b, err := n.AsBool()
		if err != nil {
			return val.V{}, fmt.Errorf("at %q: AsBool: %w", path, err)
		}
		return val.MkBool(b), nil
	case datamodel.Kind_Int:
		if un, ok := n.(datamodel.UintNode); ok {
			u, err := un.AsUint()
			if err != nil {
				// a UintNode holding a negative number may refuse; fall back to AsInt
				i, err2 := n.AsInt()
				if err2 != nil {
					return val.V{}, fmt.Errorf("at %q: AsUint: %v, AsInt: %w", path, err, err2)
				}
				return val.MkInt(i), nil
			}
			i, ierr := n.AsInt()
			if u <= math.MaxInt64 {
				if ierr != nil || uint64(i) != u {
					return val.V{}, fmt.Errorf("at %q: AsUint=%d but AsInt=%d,%v", path, u, i, ierr)
				}
			} else if ierr == nil {
				return val.V{}, fmt.Errorf("at %q: AsUint=%d beyond int64 but AsInt=%d without error", path, u, i)
			}
			return val.MkUint(u), nil
		}
		i, err := n.AsInt()
		if err != nil {
			return val.V{}, fmt.Errorf("at %q: AsInt: %w", path, err)
		}
		return val.MkInt(i), nil
	case datamodel.Kind_Float:
		f, err := n.AsFloat()
		if err != nil {
			return val.V{}, fmt.Errorf("at %q: AsFloat: %w", path, err)
		}
		return val.MkFloat(f), nil
	case datamodel.Kind_String:
		s, err := n.AsString()
		if err != nil {
			return val.V{}, fmt.Errorf("at %q: AsString: %w", path, err)
		}
		return val.MkString(s), nil
	case datamodel.Kind_Bytes:
		b, err := n.AsBytes()
		if err != nil {
			return val.V{}, fmt.Errorf("at %q: AsBytes: %w", path, err)
		}
		return val.MkBytes(b), nil
	case datamodel.Kind_Link:
		l, err := n.AsLink()
		if err != nil {
			return val.V{}, fmt.Errorf("at %q: AsLink: %w", path, err)
		}
		if l == nil {
			return val.V{}, fmt.Errorf("at %q: AsLink returned nil link", path)
		}
		return val.MkLink(l.Binary()), nil
	case datamodel.Kind_List:
		return r.readList(n, path)
	case datamodel.Kind_Map:
		return r.readMap(n, path)
	}
	return val.V{}, fmt.Errorf("at %q: invalid kind %v", path, k)
}

func (r *Reader) readList(n datamodel.Node, path string) (val.V, error) {
	length := n.Length()
	if length < 0 {
		return val.V{}, fmt.Errorf("at %q: list Length=%d", path, length)
	}
	it := n.ListIterator()
	if it == nil {
		return val.V{}, fmt.Errorf("at %q: list has nil ListIterator", path)
	}
	if n.MapIterator() != nil {
		return val.V{}, fmt.Errorf("at %q: list has non-nil MapIterator", path)
	}
	out := val.V{K: val.List, Items: []val.V{}}
	var heldVals []datamodel.Node
	var i int64
	for !it.Done() {
		if i >= length {
			return val.V{}, fmt.Errorf("at %q: list iterator yields more than Length=%d", path, length)
		}
		idx, cn, err := it.Next()
		if err != nil {
			return val.V{}, fmt.Errorf("at %q: list iterator step %d: %w", path, i, err)
		}
		if idx != i {
			return val.V{}, fmt.Errorf("at %q: list iterator step %d reported index %d", path, i, idx)
		}
		cp := path + "/" + strconv.FormatInt(i, 10)
		cv, err := r.read(cn, cp)
		if err != nil {
			return val.V{}, err
		}
		heldVals = append(heldVals, cn)
		if r.Lookups {
			for form, get := range map[string]func() (datamodel.Node, error){
				"LookupByIndex":        func() (datamodel.Node, error) { return n.LookupByIndex(i) },
				"LookupBySegment(int)": func() (datamodel.Node, error) { return n.LookupBySegment(datamodel.PathSegmentOfInt(i)) },
				"LookupBySegment(string)": func() (datamodel.Node, error) {
					return n.LookupBySegment(datamodel.PathSegmentOfString(strconv.FormatInt(i, 10)))
				},
			} {
				ln, err := get()
				if err != nil {
					return val.V{}, fmt.Errorf("at %q: %s: %w", cp, form, err)
				}
				lv, err := (&Reader{Typed: r.Typed, MaxNodes: r.MaxNodes}).read(ln, cp)
				if err != nil {
					return val.V{}, fmt.Errorf("%s result: %w", form, err)
				}
				if !val.Equal(lv, cv, val.Ordered) {
					return val.V{}, fmt.Errorf("at %q: %s gives %s but iterator gave %s", cp, form, lv.Short(200), cv.Short(200))
				}
			}
			// LookupByNode on lists is implementation-defined: it may refuse, but must not
			// panic, and if it answers it must answer consistently.
			if ln, err := n.LookupByNode(basicnode.NewInt(i)); err == nil {
				lv, err := (&Reader{Typed: r.Typed, MaxNodes: r.MaxNodes}).read(ln, cp)
				if err != nil {
					return val.V{}, fmt.Errorf("LookupByNode result: %w", err)
				}
				if !val.Equal(lv, cv, val.Ordered) {
					return val.V{}, fmt.Errorf("at %q: LookupByNode(int) gives %s but iterator gave %s", cp, lv.Short(200), cv.Short(200))
				}
			}
		}
		out.Items = append(out.Items, cv)
		i++
	}
	if i != length {
		return val.V{}, fmt.Errorf("at %q: list Length=%d but iterator yielded %d", path, length, i)
	}
	// the element nodes the iterator handed out are nodes in their own right: they read the same once the
	// iterator has moved on (scalars and small containers only, to keep the re-read linear)
	for j, cn := range heldVals {
		if out.Items[j].Size() > 4 {
			continue
		}
		again, err := (&Reader{Typed: r.Typed, MaxNodes: r.MaxNodes}).read(cn, path+"/"+strconv.Itoa(j))
		if err != nil || !val.Equal(again, out.Items[j], val.Ordered) {
			return val.V{}, fmt.Errorf("at %q: the element node the iterator yielded at step %d read %s then, and %s (err %v) once the iteration had finished", path, j, out.Items[j].Short(100), again.Short(100), err)
		}
	}
	if _, _, err := it.Next(); err == nil {
		return val.V{}, fmt.Errorf("at %q: list iterator over-read returned no error", path)
	} else if !errors.As(err, &datamodel.ErrIteratorOverread{}) {
		return val.V{}, fmt.Errorf("at %q: list iterator over-read error is %T, not ErrIteratorOverread", path, err)
	}
	if !it.Done() {
		return val.V{}, fmt.Errorf("at %q: list iterator not Done after over-read", path)
	}
	if r.Lookups {
		for _, bad := range []int64{length, length + 1, -1, math.MaxInt64, math.MinInt64} {
			if x, err := n.LookupByIndex(bad); err == nil {
				return val.V{}, fmt.Errorf("at %q: LookupByIndex(%d) on list of %d returned %v without error", path, bad, length, x)
			}
			if x, err := n.LookupBySegment(datamodel.PathSegmentOfInt(bad)); err == nil && bad >= 0 {
				return val.V{}, fmt.Errorf("at %q: LookupBySegment(%d) on list of %d returned %v without error", path, bad, length, x)
			}
		}
		for _, bad := range []string{"", "x", "-1", "1.5", strconv.FormatInt(length, 10), "99999999999999999999"} {
			if x, err := n.LookupBySegment(datamodel.PathSegmentOfString(bad)); err == nil {
				return val.V{}, fmt.Errorf("at %q: LookupBySegment(%q) on list of %d returned %v without error", path, bad, length, x)
			}
		}
	}
	return out, nil
}

func (r *Reader) readMap(n datamodel.Node, path string) (val.V, error) {
	length := n.Length()
	if length < 0 {
		return val.V{}, fmt.Errorf("at %q: map Length=%d", path, length)
	}
	it := n.MapIterator()
	if it == nil {
		return val.V{}, fmt.Errorf("at %q: map has nil MapIterator", path)
	}
	if n.ListIterator() != nil {
		return val.V{}, fmt.Errorf("at %q: map has non-nil ListIterator", path)
	}
	out := val.V{K: val.Map, Ents: []val.Ent{}}
	seen := map[string]bool{}
	var heldKeys, heldVals []datamodel.Node
	var i int64
	for !it.Done() {
		if i >= length {
			return val.V{}, fmt.Errorf("at %q: map iterator yields more than Length=%d", path, length)
		}
		kn, vn, err := it.Next()
		if err != nil {
			return val.V{}, fmt.Errorf("at %q: map iterator step %d: %w", path, i, err)
		}
		if kn == nil {
			return val.V{}, fmt.Errorf("at %q: map iterator step %d: nil key", path, i)
		}
		ks, err := keyString(kn)
		if err != nil {
			return val.V{}, fmt.Errorf("at %q: map iterator step %d key: %w", path, i, err)
		}
		if seen[ks] {
			return val.V{}, fmt.Errorf("at %q: map iterator yields key %q twice", path, ks)
		}
		seen[ks] = true
		cp := path + "/" + ks
		cv, err := r.read(vn, cp)
		if err != nil {
			return val.V{}, err
		}
		if r.Lookups {
			// by-string lookups on a typed map take the key's REPRESENTATION string (documented for maps with
			// non-String key types: the key is assembled through its string representation), which differs from
			// what the type-level key node reads as when, e.g., an enum key has a renamed member
			lks := ks
			if tk, ok := kn.(interface{ Representation() datamodel.Node }); ok {
				if rs, err := tk.Representation().AsString(); err == nil {
					lks = rs
				}
			}
			forms := map[string]func() (datamodel.Node, error){
				"LookupByString":    func() (datamodel.Node, error) { return n.LookupByString(lks) },
				"LookupByNode(key)": func() (datamodel.Node, error) { return n.LookupByNode(kn) },
				"LookupBySegment":   func() (datamodel.Node, error) { return n.LookupBySegment(datamodel.PathSegmentOfString(lks)) },
			}
			if kn.Kind() == datamodel.Kind_String && lks == ks {
				forms["LookupByNode(basic string)"] = func() (datamodel.Node, error) { return n.LookupByNode(basicnode.NewString(ks)) }
			}
			for form, get := range forms {
				ln, err := get()
				if err != nil {
					if cv.K == val.Absent && r.Typed {
						// an absent struct field may be reported as "not there" by a lookup
						continue
					}
					if r.LenientKeyNode && form == "LookupByNode(basic string)" {
						// a typed map may insist on key nodes of its own key type: an error (not a
						// panic) is a documented answer to a foreign key node
						continue
					}
					return val.V{}, fmt.Errorf("at %q: %s: %w", cp, form, err)
				}
				lv, err := (&Reader{Typed: r.Typed, MaxNodes: r.MaxNodes}).read(ln, cp)
				if err != nil {
					return val.V{}, fmt.Errorf("%s result: %w", form, err)
				}
				if !val.Equal(lv, cv, val.Ordered) {
					return val.V{}, fmt.Errorf("at %q: %s gives %s but iterator gave %s", cp, form, lv.Short(200), cv.Short(200))
				}
			}
		}
		out.Ents = append(out.Ents, val.Ent{K: ks, V: cv})
		heldKeys = append(heldKeys, kn)
		heldVals = append(heldVals, vn)
		i++
	}
	if i != length {
		return val.V{}, fmt.Errorf("at %q: map Length=%d but iterator yielded %d", path, length, i)
	}
	// key nodes handed out by the iterator are nodes in their own right: they still read the same after the
	// iterator has moved on, and still find their entry
	for j, vn := range heldVals {
		if out.Ents[j].V.Size() > 4 {
			continue
		}
		again, err := (&Reader{Typed: r.Typed, MaxNodes: r.MaxNodes}).read(vn, path+"/"+out.Ents[j].K)
		if err != nil || !val.Equal(again, out.Ents[j].V, val.Ordered) {
			return val.V{}, fmt.Errorf("at %q: the value node the iterator yielded at step %d (%q) read %s then, and %s (err %v) once the iteration had finished", path, j, out.Ents[j].K, out.Ents[j].V.Short(100), again.Short(100), err)
		}
	}
	for j, kn := range heldKeys {
		ks, err := keyString(kn)
		if err != nil || ks != out.Ents[j].K {
			return val.V{}, fmt.Errorf("at %q: the key node the iterator yielded at step %d read %q then, and %q (err %v) once the iteration had finished", path, j, out.Ents[j].K, ks, err)
		}
		if r.Lookups && !(out.Ents[j].V.K == val.Absent && r.Typed) {
			ln, err := n.LookupByNode(kn)
			if err != nil {
				return val.V{}, fmt.Errorf("at %q: LookupByNode with the key node yielded at step %d (%q), after the iteration: %w", path, j, ks, err)
			}
			if lv, err := (&Reader{Typed: r.Typed, MaxNodes: r.MaxNodes}).read(ln, path+"/"+ks); err != nil || !val.Equal(lv, out.Ents[j].V, val.Ordered) {
				return val.V{}, fmt.Errorf("at %q: LookupByNode with the key node yielded at step %d (%q), after the iteration, gives %s (err %v), the iterator gave %s", path, j, ks, lv.Short(120), err, out.Ents[j].V.Short(120))
			}
		}
	}
	if _, _, err := it.Next(); err == nil {
		return val.V{}, fmt.Errorf("at %q: map iterator over-read returned no error", path)
	} else if !errors.As(err, &datamodel.ErrIteratorOverread{}) {
		return val.V{}, fmt.Errorf("at %q: map iterator over-read error is %T, not ErrIteratorOverread", path, err)
	}
	if r.Lookups {
		for _, probe := range []string{"", "nonexistent\x00key", "a", "0", "zzzzzzzz"} {
			if seen[probe] {
				continue
			}
			if x, err := n.LookupByString(probe); err == nil {
				return val.V{}, fmt.Errorf("at %q: LookupByString(%q) of a missing key returned %v without error", path, probe, x)
			}
			if x, err := n.LookupBySegment(datamodel.PathSegmentOfString(probe)); err == nil {
				return val.V{}, fmt.Errorf("at %q: LookupBySegment(%q) of a missing key returned %v without error", path, probe, x)
			}
			if x, err := n.LookupByNode(basicnode.NewString(probe)); err == nil {
				return val.V{}, fmt.Errorf("at %q: LookupByNode(%q) of a missing key returned %v without error", path, probe, x)
			}
		}
	}
	return out, nil
}

// keyString reads a map key node as the string that addresses the entry.
func keyString(kn datamodel.Node) (string, error) {
	switch kn.Kind() {
	case datamodel.Kind_String:
		return kn.AsString()
	default:
		// typed maps with complex keys: the representation must be a string
		if tn, ok := kn.(interface{ Representation() datamodel.Node }); ok {
			return tn.Representation().AsString()
		}
		return "", fmt.Errorf("map key of kind %v", kn.Kind())
	}
}

// CheckWrongKind calls every kind-inappropriate accessor of n and requires an
// ErrWrongKind error (nil iterators, Length -1), and no panic.
func CheckWrongKind(n datamodel.Node) (err error) {
	name := "?"
	defer func() {
		if rec := recover(); rec != nil {
			err = fmt.Errorf("PANIC in %s on a %v node: %v", name, n.Kind(), rec)
		}
	}()
	k := n.Kind()
	wrong := func(what string, e error, zero bool) error {
		if e == nil {
			return fmt.Errorf("%s on a %v node returned no error", what, k)
		}
		var wk datamodel.ErrWrongKind
		if !errors.As(e, &wk) {
			return fmt.Errorf("%s on a %v node returned %T (%v), not ErrWrongKind", what, k, e, e)
		}
		return nil
	}
	if k != datamodel.Kind_Bool {
		name = "AsBool"
		_, e := n.AsBool()
		if err := wrong(name, e, true); err != nil {
			return err
		}
	}
	if k != datamodel.Kind_Int {
		name = "AsInt"
		_, e := n.AsInt()
		if err := wrong(name, e, true); err != nil {
			return err
		}
	}
	if k != datamodel.Kind_Float {
		name = "AsFloat"
		_, e := n.AsFloat()
		if err := wrong(name, e, true); err != nil {
			return err
		}
	}
	if k != datamodel.Kind_String {
		name = "AsString"
		_, e := n.AsString()
		if err := wrong(name, e, true); err != nil {
			return err
		}
	}
	if k != datamodel.Kind_Bytes {
		name = "AsBytes"
		_, e := n.AsBytes()
		if err := wrong(name, e, true); err != nil {
			return err
		}
	}
	if k != datamodel.Kind_Link {
		name = "AsLink"
		_, e := n.AsLink()
		if err := wrong(name, e, true); err != nil {
			return err
		}
	}
	if k != datamodel.Kind_Map {
		name = "LookupByString"
		x, e := n.LookupByString("a")
		if err := wrong(name, e, true); err != nil {
			return err
		}
		if x != nil {
			return fmt.Errorf("%s on a %v node returned a node with its error", name, k)
		}
		name = "MapIterator"
		if n.MapIterator() != nil {
			return fmt.Errorf("MapIterator on a %v node is not nil", k)
		}
	}
	if k != datamodel.Kind_List {
		name = "LookupByIndex"
		_, e := n.LookupByIndex(0)
		if err := wrong(name, e, true); err != nil {
			return err
		}
		name = "ListIterator"
		if n.ListIterator() != nil {
			return fmt.Errorf("ListIterator on a %v node is not nil", k)
		}
	}
	if k != datamodel.Kind_Map && k != datamodel.Kind_List {
		name = "LookupBySegment"
		_, e := n.LookupBySegment(datamodel.PathSegmentOfString("0"))
		if err := wrong(name, e, true); err != nil {
			return err
		}
		name = "LookupByNode"
		_, e = n.LookupByNode(basicnode.NewString("a"))
		if err := wrong(name, e, true); err != nil {
			return err
		}
		name = "Length"
		if l := n.Length(); l != -1 {
			return fmt.Errorf("Length on a %v node is %d, not -1", k, l)
		}
	}
	return nil
}

// ReadLargeBytes reads a bytes node through AsLargeBytes when it offers that interface.
func ReadLargeBytes(n datamodel.Node) ([]byte, bool, error) {
	lb, ok := n.(datamodel.LargeBytesNode)
	if !ok {
		return nil, false, nil
	}
	rs, err := lb.AsLargeBytes()
	if err != nil {
		return nil, true, err
	}
	if _, err := rs.Seek(0, io.SeekStart); err != nil {
		return nil, true, err
	}
	b, err := io.ReadAll(rs)
	return b, true, err
}
