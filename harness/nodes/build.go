// Package nodes turns abstract values into real nodes through drawn "builder programs"
// and reads real nodes back into abstract values through the public Node API only.
package nodes

import (
	"bytes"
	"fmt"

	"github.com/ipfs/go-cid"
	ipld "github.com/ipld/go-ipld-prime"
	"github.com/ipld/go-ipld-prime/datamodel"
	cidlink "github.com/ipld/go-ipld-prime/linking/cid"
	"github.com/ipld/go-ipld-prime/node/basicnode"
	"github.com/ipld/go-ipld-prime/node/bindnode"
	"github.com/ipld/go-ipld-prime/schema"

	"verif/val"
)

// Prog is a stream of style choices. It is plain data so that a case can be saved and replayed.
// An empty program means "default style everywhere".
type Prog struct {
	C []byte `json:"c"`
	i int
	// counters describing what the program actually did (for the non-triviality rule)
	Styles map[string]int `json:"-"`
}

func NewProg(c []byte) *Prog { return &Prog{C: c, Styles: map[string]int{}} }

func (p *Prog) Next(n int) int {
	if p == nil || len(p.C) == 0 || n <= 1 {
		return 0
	}
	c := int(p.C[p.i%len(p.C)])
	p.i++
	return c % n
}

func (p *Prog) note(s string) {
	if p != nil && p.Styles != nil {
		p.Styles[s]++
	}
}

// DistinctStyles is the number of different call styles the program used.
func (p *Prog) DistinctStyles() int {
	if p == nil {
		return 0
	}
	return len(p.Styles)
}

func MkLink(cidBytes string) (datamodel.Link, error) {
	c, err := cid.Cast([]byte(cidBytes))
	if err != nil {
		return nil, fmt.Errorf("generator produced an invalid CID %x: %w", cidBytes, err)
	}
	return cidlink.Link{Cid: c}, nil
}

// the bindnode "any" family: typed containers of Any, which can hold every data-model value
var (
	anyTS       *schema.TypeSystem
	BindAnyMap  schema.TypedPrototype
	BindAnyList schema.TypedPrototype
	// the same containers with non-nullable Any members (the member slot is a datamodel.Node, not a pointer to
	// one): they cannot hold a null member, so Build falls back to the nullable ones for values that have one
	BindAnyMapNN  schema.TypedPrototype
	BindAnyListNN schema.TypedPrototype
)

func init() {
	ts, err := ipld.LoadSchemaBytes([]byte(`
		type AnyMap {String:nullable Any}
		type AnyList [nullable Any]
		type AnyMapNN {String:Any}
		type AnyListNN [Any]
	`))
	if err != nil {
		panic(err)
	}
	anyTS = ts
	BindAnyMap = bindnode.Prototype(nil, ts.TypeByName("AnyMap"))
	BindAnyList = bindnode.Prototype(nil, ts.TypeByName("AnyList"))
	BindAnyMapNN = bindnode.Prototype(nil, ts.TypeByName("AnyMapNN"))
	BindAnyListNN = bindnode.Prototype(nil, ts.TypeByName("AnyListNN"))
}

// nnFallback replaces a non-nullable Any container prototype by its nullable twin when the root value has a
// null member (which {String:Any} / [Any] cannot hold).
func nnFallback(v val.V, np datamodel.NodePrototype) datamodel.NodePrototype {
	hasNull := false
	for _, e := range v.Ents {
		hasNull = hasNull || e.V.K == val.Null
	}
	for _, it := range v.Items {
		hasNull = hasNull || it.K == val.Null
	}
	if !hasNull {
		return np
	}
	switch np {
	case datamodel.NodePrototype(BindAnyMapNN):
		return BindAnyMap
	case datamodel.NodePrototype(BindAnyListNN):
		return BindAnyList
	}
	if np == BindAnyMapNN.Representation() {
		return BindAnyMap.Representation()
	}
	if np == BindAnyListNN.Representation() {
		return BindAnyList.Representation()
	}
	return np
}

// Impl names a node implementation able to hold arbitrary values.
type Impl string

const (
	BasicAny  Impl = "basic.any"
	BasicKind Impl = "basic.kind" // the kind-specific basicnode prototype for the root kind
	BindAnyC  Impl = "bind.anycontainer"
	BindAnyR  Impl = "bind.anycontainer.repr"
	BindAnyNN Impl = "bind.anycontainer.nonnullable"
)

var Impls = []Impl{BasicAny, BasicKind, BindAnyC, BindAnyR}

// ProtoFor gives the prototype of impl for a root of the given kind.
func ProtoFor(impl Impl, root val.Kind) datamodel.NodePrototype {
	switch impl {
	case BasicKind:
		switch root {
		case val.Map:
			return basicnode.Prototype.Map
		case val.List:
			return basicnode.Prototype.List
		case val.Bool:
			return basicnode.Prototype.Bool
		case val.Int:
			return basicnode.Prototype.Int
		case val.Float:
			return basicnode.Prototype.Float
		case val.String:
			return basicnode.Prototype.String
		case val.Bytes:
			return basicnode.Prototype.Bytes
		case val.Link:
			return basicnode.Prototype.Link
		}
	case BindAnyC:
		switch root {
		case val.Map:
			return BindAnyMap
		case val.List:
			return BindAnyList
		}
		// a bare top-level Any binding is not a documented use of bindnode; scalars roots
		// fall back to basicnode
		return basicnode.Prototype.Any
	case BindAnyNN:
		switch root {
		case val.Map:
			return BindAnyMapNN
		case val.List:
			return BindAnyListNN
		}
		return basicnode.Prototype.Any
	case BindAnyR:
		switch root {
		case val.Map:
			return BindAnyMap.Representation()
		case val.List:
			return BindAnyList.Representation()
		}
		return basicnode.Prototype.Any
	}
	return basicnode.Prototype.Any
}

// Build constructs v with prototype np following the program's style choices.
func Build(v val.V, p *Prog, np datamodel.NodePrototype) (n datamodel.Node, err error) {
	defer func() {
		if r := recover(); r != nil {
			n, err = nil, fmt.Errorf("PANIC while building: %v", r)
		}
	}()
	nb := nnFallback(v, np).NewBuilder()
	if err := Assemble(nb, v, p, 0); err != nil {
		return nil, err
	}
	return nb.Build(), nil
}

func buildNoForeignRoot(v val.V, p *Prog, np datamodel.NodePrototype) (n datamodel.Node, err error) {
	defer func() {
		if r := recover(); r != nil {
			n, err = nil, fmt.Errorf("PANIC while building: %v", r)
		}
	}()
	nb := nnFallback(v, np).NewBuilder()
	if err := assemble(nb, v, p, 0, false); err != nil {
		return nil, err
	}
	return nb.Build(), nil
}

// BuildDefault builds with basicnode Any and the default style.
func BuildDefault(v val.V) (datamodel.Node, error) {
	return Build(v, nil, basicnode.Prototype.Any)
}

func MustBuild(v val.V) datamodel.Node {
	n, err := BuildDefault(v)
	if err != nil {
		panic(err)
	}
	return n
}

func sizeHint(p *Prog, n int) int64 {
	switch p.Next(6) {
	case 0:
		return int64(n)
	case 1:
		p.note("hint-1")
		return -1
	case 2:
		p.note("hint0")
		return 0
	case 3:
		p.note("hintsmall")
		return int64(n / 2)
	case 4:
		p.note("hintbig")
		return int64(n + 3)
	default:
		return int64(n)
	}
}

// prebuilt returns a finished node for v from another builder (for AssignNode).
func prebuilt(v val.V, p *Prog) (datamodel.Node, error) {
	var np datamodel.NodePrototype
	switch p.Next(3) {
	case 0:
		np = basicnode.Prototype.Any
		p.note("foreign-basic")
	case 1:
		np = ProtoFor(BasicKind, v.K)
		p.note("foreign-basickind")
	default:
		np = ProtoFor(BindAnyC, v.K)
		p.note("foreign-bind")
	}
	sub := &Prog{C: nil}
	if p != nil && len(p.C) > 0 {
		sub = &Prog{C: p.C, i: p.i + 1}
	}
	return buildNoForeignRoot(v, sub, np)
}

// shortReads is a ReadSeeker whose reads return 1, 2, 4, 5, 1, … bytes.
type shortReads struct {
	*bytes.Reader
	i int
}

func (r *shortReads) Read(p []byte) (int, error) {
	n := []int{1, 2, 4, 5}[r.i%4]
	r.i++
	if n < len(p) {
		p = p[:n]
	}
	return r.Reader.Read(p)
}

// Assemble writes v into na.
func Assemble(na datamodel.NodeAssembler, v val.V, p *Prog, depth int) error {
	return assemble(na, v, p, depth, true)
}

func assemble(na datamodel.NodeAssembler, v val.V, p *Prog, depth int, foreign bool) error {
	// whole-subtree AssignNode of a node built elsewhere
	if (foreign && p.Next(5) == 4) || v.K == val.Uint {
		var n datamodel.Node
		var err error
		if v.K == val.Uint {
			n = basicnode.NewUint(v.U)
		} else {
			n, err = prebuilt(v, p)
			if err != nil {
				return fmt.Errorf("prebuild: %w", err)
			}
		}
		p.note("assignnode")
		return na.AssignNode(n)
	}
	switch v.K {
	case val.Null:
		return na.AssignNull()
	case val.Bool:
		return na.AssignBool(v.B)
	case val.Int:
		if v.I >= 0 && p.Next(8) == 7 {
			// a non-negative integer held by a UintNode (what the CBOR decoder produces for big
			// values, and what callers may build themselves) is an integer node like any other
			p.note("assignnode-uintnode")
			return na.AssignNode(basicnode.NewUint(uint64(v.I)))
		}
		return na.AssignInt(v.I)
	case val.Float:
		return na.AssignFloat(v.F)
	case val.String:
		return na.AssignString(v.S)
	case val.Bytes:
		if len(v.S) > 0 && p.Next(8) == 6 {
			// the bytes held by a reader-backed node (a LargeBytesNode) whose reader hands out short reads of
			// 1, 2, 4 and 5 bytes in turn — legal for an io.Reader, and what a chunked source does
			p.note("assignnode-readerbytes")
			return na.AssignNode(basicnode.NewBytesFromReader(&shortReads{Reader: bytes.NewReader([]byte(v.S))}))
		}
		// the caller-owned slice is a private copy, never written afterwards
		return na.AssignBytes([]byte(v.S))
	case val.Link:
		l, err := MkLink(v.S)
		if err != nil {
			return err
		}
		return na.AssignLink(l)
	case val.List:
		la, err := na.BeginList(sizeHint(p, len(v.Items)))
		if err != nil {
			return err
		}
		for _, it := range v.Items {
			if err := assemble(la.AssembleValue(), it, p, depth+1, true); err != nil {
				return err
			}
		}
		return la.Finish()
	case val.Map:
		present := 0
		for _, e := range v.Ents {
			if e.V.K != val.Absent {
				present++
			}
		}
		ma, err := na.BeginMap(sizeHint(p, present))
		if err != nil {
			return err
		}
		for _, e := range v.Ents {
			if e.V.K == val.Absent {
				continue // an absent struct field is simply not assembled
			}
			var va datamodel.NodeAssembler
			switch p.Next(3) {
			case 0:
				p.note("entry")
				va, err = ma.AssembleEntry(e.K)
				if err != nil {
					return err
				}
			case 1:
				p.note("key.string")
				if err := ma.AssembleKey().AssignString(e.K); err != nil {
					return err
				}
				va = ma.AssembleValue()
			default:
				p.note("key.node")
				if err := ma.AssembleKey().AssignNode(basicnode.NewString(e.K)); err != nil {
					return err
				}
				va = ma.AssembleValue()
			}
			if err := assemble(va, e.V, p, depth+1, true); err != nil {
				return err
			}
		}
		return ma.Finish()
	}
	return fmt.Errorf("cannot assemble kind %v", v.K)
}
