package nodes

import (
	"fmt"

	"github.com/ipld/go-ipld-prime/datamodel"
	"github.com/ipld/go-ipld-prime/node/basicnode"

	"verif/val"
)

// Recorder is a caller-supplied assembler of the plainest kind: it writes down what it is given as an
// abstract value and refuses nothing — not even a repeated map key. What a decoder promises to reject it
// has to reject itself; an assembler like this one (filling a Go map, a database row, a counter) will not
// do it for the decoder.
type Recorder struct {
	V    val.V
	Done bool
}

func NewRecorder() *Recorder { return &Recorder{} }

func (r *Recorder) Assembler() datamodel.NodeAssembler {
	return &recNA{set: func(v val.V) { r.V, r.Done = v, true }}
}

type recNA struct{ set func(val.V) }

func (a *recNA) BeginMap(int64) (datamodel.MapAssembler, error) {
	return &recMA{out: a.set, v: val.V{K: val.Map, Ents: []val.Ent{}}}, nil
}
func (a *recNA) BeginList(int64) (datamodel.ListAssembler, error) {
	return &recLA{out: a.set, v: val.V{K: val.List, Items: []val.V{}}}, nil
}
func (a *recNA) AssignNull() error           { a.set(val.MkNull()); return nil }
func (a *recNA) AssignBool(b bool) error     { a.set(val.MkBool(b)); return nil }
func (a *recNA) AssignInt(i int64) error     { a.set(val.MkInt(i)); return nil }
func (a *recNA) AssignFloat(f float64) error { a.set(val.MkFloat(f)); return nil }
func (a *recNA) AssignString(s string) error { a.set(val.MkString(s)); return nil }
func (a *recNA) AssignBytes(b []byte) error  { a.set(val.MkBytes(append([]byte{}, b...))); return nil }
func (a *recNA) AssignLink(l datamodel.Link) error {
	a.set(val.MkLink(l.Binary()))
	return nil
}
func (a *recNA) AssignNode(n datamodel.Node) error {
	v, err := Read(n)
	if err != nil {
		return err
	}
	a.set(v)
	return nil
}
func (a *recNA) Prototype() datamodel.NodePrototype { return basicnode.Prototype.Any }

type recMA struct {
	out func(val.V)
	v   val.V
	key *string
}

func (m *recMA) AssembleKey() datamodel.NodeAssembler {
	return &recNA{set: func(k val.V) {
		s := k.S
		m.key = &s
	}}
}
func (m *recMA) AssembleValue() datamodel.NodeAssembler {
	k := ""
	if m.key != nil {
		k = *m.key
	}
	m.key = nil
	return &recNA{set: func(v val.V) { m.v.Ents = append(m.v.Ents, val.Ent{K: k, V: v}) }}
}
func (m *recMA) AssembleEntry(k string) (datamodel.NodeAssembler, error) {
	return &recNA{set: func(v val.V) { m.v.Ents = append(m.v.Ents, val.Ent{K: k, V: v}) }}, nil
}
func (m *recMA) Finish() error {
	if m.key != nil {
		return fmt.Errorf("recorder: map finished between a key and its value")
	}
	m.out(m.v)
	return nil
}
func (m *recMA) KeyPrototype() datamodel.NodePrototype         { return basicnode.Prototype.String }
func (m *recMA) ValuePrototype(string) datamodel.NodePrototype { return basicnode.Prototype.Any }

type recLA struct {
	out func(val.V)
	v   val.V
}

func (l *recLA) AssembleValue() datamodel.NodeAssembler {
	return &recNA{set: func(v val.V) { l.v.Items = append(l.v.Items, v) }}
}
func (l *recLA) Finish() error                                { l.out(l.v); return nil }
func (l *recLA) ValuePrototype(int64) datamodel.NodePrototype { return basicnode.Prototype.Any }
