// Package known tells generators and checks which listed known findings are active, so that
// they can steer around exactly those inputs (counting what was excluded) and the search
// continues behind a shallow defect. The list itself is /verif/known_findings.json, read by
// the driver, which passes the active keys in VERIF_KNOWN; nothing is ever added at run time.
package known

import (
	"os"
	"strings"
)

func Active(key string) bool {
	for _, k := range strings.Split(os.Getenv("VERIF_KNOWN"), ",") {
		if k == key {
			return true
		}
	}
	return false
}
