package checks

import (
	"bytes"
	"fmt"
	"io"
	"strings"
	"testing"

	"github.com/ipld/go-ipld-prime/codec/dagcbor"
	"github.com/ipld/go-ipld-prime/codec/dagjson"
	"github.com/ipld/go-ipld-prime/datamodel"
	"github.com/ipld/go-ipld-prime/node/basicnode"
	"github.com/ipld/go-ipld-prime/node/bindnode"
	"github.com/ipld/go-ipld-prime/node/gendemo"
	"github.com/ipld/go-ipld-prime/traversal"
	"github.com/ipld/go-ipld-prime/traversal/selector"
	"pgregory.net/rapid"

	"verif/evid"
	"verif/nodes"
	"verif/refcbor"
	"verif/refsel"
	"verif/selx"
	"verif/tschema"
	"verif/val"
)

// C11: a finished node never changes, and reading it is repeatable.

type C11Op struct {
	Kind   string  `json:"kind"`
	Target int     `json:"target"`
	V      val.V   `json:"v"`
	Prog   []byte  `json:"prog,omitempty"`
	Impl   string  `json:"impl,omitempty"`
	Extra  []val.V `json:"extra,omitempty"`
	A      int     `json:"a"`
	B      int     `json:"b"`
}

type C11Case struct {
	Ops []C11Op `json:"ops"`
}

type tracked struct {
	n    datamodel.Node
	snap val.V
	from string
	nb   datamodel.NodeBuilder // the builder that produced it, if any
	// typed: the builder only accepts values of one schema type; regen gives another such value
	regen func(a, b int) val.V
	// typedish: the node is, or may share structure with, a typed node (readers then tolerate typed-map key
	// nodes; transforms replace a position only by what is already there)
	typedish bool
}

// typed engines in the histories: struct Msg3 and map {String:Msg3} as checked-in generated code
// (node/gendemo) and as a bindnode binding of the same schema.
var c11TypedSchema = tschema.Schema{Types: []tschema.TypeSpec{
	{Name: "Msg3", Kind: "struct", Repr: "map", Fields: []tschema.FieldSpec{{Name: "whee", Type: "Int"}, {Name: "woot", Type: "Int"}, {Name: "waga", Type: "Int"}}},
	{Name: "MapMsg3", Kind: "map", Elem: "Msg3"},
	{Name: "ListMsg3", Kind: "list", Elem: "Msg3"},
	{Name: "ListString", Kind: "list", Elem: "String"},
	{Name: "Pair", Kind: "struct", Repr: "stringjoin", Delim: ":", Fields: []tschema.FieldSpec{{Name: "a", Type: "String"}, {Name: "b", Type: "String"}}},
}}

var c11TypedProtos = func() map[string]datamodel.NodePrototype {
	ts, err := c11TypedSchema.Build()
	if err != nil {
		panic(err)
	}
	bm, bs := bindnode.Prototype(nil, ts.TypeByName("MapMsg3")), bindnode.Prototype(nil, ts.TypeByName("Msg3"))
	bl, bls := bindnode.Prototype(nil, ts.TypeByName("ListMsg3")), bindnode.Prototype(nil, ts.TypeByName("ListString"))
	bstr, bbytes, bpair := bindnode.Prototype(nil, ts.TypeByName("String")), bindnode.Prototype(nil, ts.TypeByName("Bytes")), bindnode.Prototype(nil, ts.TypeByName("Pair"))
	return map[string]datamodel.NodePrototype{
		// types whose representation is a scalar: a string, bytes, a struct joined into one string
		"bindnode.string": bstr, "bindnode.string.repr": bstr.Representation(), "bindnode.bytes.repr": bbytes.Representation(),
		"bindnode.join": bpair, "bindnode.join.repr": bpair.Representation(),
		"gendemo.map": gendemo.Type.Map__String__Msg3, "gendemo.map.repr": gendemo.Type.Map__String__Msg3__Repr,
		"gendemo.struct": gendemo.Type.Msg3, "gendemo.struct.repr": gendemo.Type.Msg3__Repr,
		"bindnode.map": bm, "bindnode.map.repr": bm.Representation(),
		"bindnode.struct": bs, "bindnode.struct.repr": bs.Representation(),
		"bindnode.list": bl, "bindnode.list.repr": bl.Representation(), "bindnode.strlist": bls,
	}
}()

var c11TypedNames = []string{"gendemo.map", "gendemo.map.repr", "gendemo.struct", "gendemo.struct.repr", "bindnode.map", "bindnode.map.repr", "bindnode.struct", "bindnode.struct.repr", "bindnode.list", "bindnode.list.repr", "bindnode.strlist",
	"bindnode.string", "bindnode.string.repr", "bindnode.bytes.repr", "bindnode.join", "bindnode.join.repr"}

func c11TypedValue(name string, a, b int) val.V {
	switch name {
	case "bindnode.string", "bindnode.string.repr":
		return val.MkString(fmt.Sprintf("s%d-%d", a, b))
	case "bindnode.bytes.repr":
		return val.MkBytes([]byte(fmt.Sprintf("b%d-%d", a, b)))
	case "bindnode.join.repr":
		return val.MkString(fmt.Sprintf("x%d:y%d", a, b))
	case "bindnode.join":
		return val.MkMap(val.Ent{K: "a", V: val.MkString(fmt.Sprintf("x%d", a))}, val.Ent{K: "b", V: val.MkString(fmt.Sprintf("y%d", b))})
	}
	if strings.Contains(name, "struct") {
		return msg3(int64(a), int64(b), int64(a*b))
	}
	if strings.Contains(name, "strlist") {
		v := val.V{K: val.List, Items: []val.V{}}
		for i := 0; i < a%5; i++ {
			v.Items = append(v.Items, val.MkString(fmt.Sprintf("s%d-%d", i, b)))
		}
		return v
	}
	if strings.Contains(name, "list") {
		v := val.V{K: val.List, Items: []val.V{}}
		for i := 0; i < a%4; i++ {
			v.Items = append(v.Items, msg3(int64(a+i), int64(b), int64(i)))
		}
		return v
	}
	v := val.V{K: val.Map, Ents: []val.Ent{}}
	for i := 0; i < a%4; i++ {
		v.Ents = append(v.Ents, val.Ent{K: fmt.Sprintf("k%d", (i*7+b)%10), V: msg3(int64(a+i), int64(b), int64(i))})
	}
	return v
}

var c11OpKinds = []string{"build", "build", "buildtyped", "decode", "copy", "embed", "bytesreader", "subset", "transform", "reread", "partial", "largebytes", "encode", "reset", "resetassign", "assignroot", "walk"}

// eofSeeker is a bytes.Reader that returns io.EOF together with the last bytes instead of on the next call.
type eofSeeker struct{ *bytes.Reader }

func (r *eofSeeker) Read(p []byte) (int, error) {
	n, err := r.Reader.Read(p)
	if err == nil && r.Reader.Len() == 0 && n > 0 {
		return n, io.EOF
	}
	return n, err
}

func c11CheckAll(ts []tracked, after string) error {
	for i, t := range ts {
		for round := 0; round < 2; round++ {
			got, err := nodes.Read(t.n)
			if err != nil {
				return fmt.Errorf("after %s: tracked node #%d (from %s) can no longer be read: %v", after, i, t.from, err)
			}
			if !val.Equal(got, t.snap, val.Ordered) {
				return fmt.Errorf("after %s: tracked node #%d (from %s) changed (read %d): %s (now vs when it was finished)", after, i, t.from, round+1, val.Diff(got, t.snap))
			}
		}
		if t.snap.K == val.Bytes {
			if b, ok, err := nodes.ReadLargeBytes(t.n); ok {
				if err != nil || string(b) != t.snap.S {
					return fmt.Errorf("after %s: tracked bytes node #%d (from %s): AsLargeBytes reads %x (err %v), content was %x", after, i, t.from, b, err, t.snap.S)
				}
			}
		}
	}
	return nil
}

func c11Check(c C11Case, rec *evid.Rec) error {
	var ts []tracked
	curTypedish := false // whether nodes tracked by the current operation derive from a typed node
	sharing, mutatingAfterSharing := false, false
	track := func(n datamodel.Node, from string, nb datamodel.NodeBuilder) error {
		v, err := nodes.Read(n)
		if err != nil {
			return fmt.Errorf("node produced by %s unreadable: %v", from, err)
		}
		ts = append(ts, tracked{n: n, snap: v, from: from, nb: nb, typedish: curTypedish})
		return nil
	}
	for i, op := range c.Ops {
		where := fmt.Sprintf("op %d (%s)", i, op.Kind)
		var tgt *tracked
		if len(ts) > 0 {
			tgt = &ts[op.Target%len(ts)]
		}
		kind := op.Kind
		curTypedish = kind == "buildtyped" || (tgt != nil && tgt.typedish && kind != "build" && kind != "decode" && kind != "bytesreader")
		if tgt == nil && kind != "build" && kind != "buildtyped" && kind != "decode" && kind != "bytesreader" {
			kind = "build"
		}
		err := evid.Guard(where, func() error {
			switch kind {
			case "build":
				np := nodes.ProtoFor(nodes.Impl(op.Impl), op.V.K)
				nb := np.NewBuilder()
				if err := nodes.Assemble(nb, op.V, nodes.NewProg(op.Prog), 0); err != nil {
					return fmt.Errorf("assemble: %w", err)
				}
				return track(nb.Build(), "build/"+op.Impl, nb)
			case "buildtyped":
				name := c11TypedNames[op.A%len(c11TypedNames)]
				v := c11TypedValue(name, op.B, op.A)
				nb := c11TypedProtos[name].NewBuilder()
				if err := nodes.Assemble(nb, v, nodes.NewProg(op.Prog), 0); err != nil {
					return fmt.Errorf("assemble %s: %w", name, err)
				}
				if err := track(nb.Build(), "build/"+name, nb); err != nil {
					return err
				}
				ts[len(ts)-1].regen = func(a, b int) val.V { return c11TypedValue(name, a, b) }
				return nil
			case "decode":
				b, err := refcbor.Encode(op.V)
				if err != nil {
					return nil
				}
				nb := nodes.ProtoFor(nodes.Impl(op.Impl), op.V.K).NewBuilder()
				if err := dagcbor.Decode(nb, bytes.NewReader(b)); err != nil {
					return fmt.Errorf("decode: %w", err)
				}
				// the decoder's input buffer is overwritten afterwards: the node must own its data
				for j := range b {
					b[j] = 0xee
				}
				return track(nb.Build(), "decode/"+op.Impl, nb)
			case "bytesreader":
				content := []byte(op.V.S)
				if op.V.K != val.Bytes && op.V.K != val.String {
					content = []byte("0123456789abcdef")
				}
				if op.A%2 == 1 {
					// a source that delivers its last bytes together with io.EOF (legal for an io.Reader)
					return track(basicnode.NewBytesFromReader(&eofSeeker{Reader: bytes.NewReader(append([]byte{}, content...))}), "NewBytesFromReader(data+EOF)", nil)
				}
				return track(basicnode.NewBytesFromReader(bytes.NewReader(append([]byte{}, content...))), "NewBytesFromReader", nil)
			case "copy":
				if tgt.snap.Has(func(x val.V) bool { return x.K == val.Uint }) {
					return nil
				}
				nb := nodes.ProtoFor(nodes.Impl(op.Impl), tgt.snap.K).NewBuilder()
				if err := datamodel.Copy(tgt.n, nb); err != nil {
					return fmt.Errorf("Copy: %w", err)
				}
				sharing = true
				return track(nb.Build(), "copy/"+op.Impl, nb)
			case "embed":
				// assign the node as a child of a new container, then keep appending siblings
				asMap := op.A%2 == 0
				root := val.List
				if asMap {
					root = val.Map
				}
				nb := nodes.ProtoFor(nodes.Impl(op.Impl), root).NewBuilder()
				if asMap {
					ma, err := nb.BeginMap(int64(len(op.Extra) + 1))
					if err != nil {
						return err
					}
					va, err := ma.AssembleEntry("embedded")
					if err != nil {
						return err
					}
					if err := va.AssignNode(tgt.n); err != nil {
						return fmt.Errorf("AssignNode(child): %w", err)
					}
					for j, x := range op.Extra {
						va, err := ma.AssembleEntry(fmt.Sprintf("sibling%d", j))
						if err != nil {
							return err
						}
						if err := nodes.Assemble(va, x, nodes.NewProg(op.Prog), 1); err != nil {
							return err
						}
					}
					if err := ma.Finish(); err != nil {
						return err
					}
				} else {
					la, err := nb.BeginList(1)
					if err != nil {
						return err
					}
					if err := la.AssembleValue().AssignNode(tgt.n); err != nil {
						return fmt.Errorf("AssignNode(child): %w", err)
					}
					for _, x := range op.Extra {
						if err := nodes.Assemble(la.AssembleValue(), x, nodes.NewProg(op.Prog), 1); err != nil {
							return err
						}
					}
					if err := la.Finish(); err != nil {
						return err
					}
				}
				sharing = true
				if len(op.Extra) > 0 {
					mutatingAfterSharing = true
				}
				return track(nb.Build(), "embed/"+op.Impl, nb)
			case "subset":
				// a subset match on the node itself (strings and bytes; otherwise a plain match)
				to := int64(op.B%11 - 4)
				if op.B%5 == 4 {
					to = 1000 // beyond the end: the slice reaches the end of the source
				}
				s := refsel.MatchSubset(int64(op.A%9-4), to)
				if s.Subset[1] >= 0 && s.Subset[0] > s.Subset[1] {
					s.Subset[0], s.Subset[1] = s.Subset[1], s.Subset[0]
				}
				sel, err := selx.CompileSpec(s)
				if err != nil {
					return err
				}
				var matched []datamodel.Node
				if err := traversal.WalkMatching(tgt.n, sel, func(_ traversal.Progress, n datamodel.Node) error {
					matched = append(matched, n)
					return nil
				}); err != nil {
					return fmt.Errorf("WalkMatching: %w", err)
				}
				for _, m := range matched {
					sharing = true
					if err := track(m, "subset-match", nil); err != nil {
						return err
					}
				}
				return nil
			case "walk":
				sel, err := selx.CompileSpec(exploreAll)
				if err != nil {
					return err
				}
				count := 0
				var keep []datamodel.Node
				werr := traversal.WalkAdv(tgt.n, sel, func(_ traversal.Progress, n datamodel.Node, _ traversal.VisitReason) error {
					count++
					if count%3 == 1 && n.Kind() != datamodel.Kind_Link {
						keep = append(keep, n)
					}
					return nil
				})
				if werr != nil && tgt.snap.Has(func(x val.V) bool { return x.K == val.Link }) {
					return nil // links are not loadable here
				}
				for _, k := range keep {
					if len(ts) < 40 {
						if err := track(k, "visited-child", nil); err != nil {
							return err
						}
					}
				}
				return werr
			case "transform":
				ch := tgt.snap
				var path []string
				for d := 0; d < 1+op.A%3; d++ {
					if ch.K == val.Map && len(ch.Ents) > 0 {
						e := ch.Ents[op.B%len(ch.Ents)]
						path, ch = append(path, e.K), e.V
					} else if ch.K == val.List && len(ch.Items) > 0 {
						j := op.B % len(ch.Items)
						path, ch = append(path, fmt.Sprint(j)), ch.Items[j]
					} else {
						break
					}
				}
				if len(path) == 0 {
					return nil
				}
				out, err := traversal.FocusedTransform(tgt.n, mkPath(path), func(_ traversal.Progress, prev datamodel.Node) (datamodel.Node, error) {
					if tgt.typedish {
						return prev, nil // a typed position only takes values of its type
					}
					return nodes.BuildDefault(op.V)
				}, false)
				if err != nil {
					return fmt.Errorf("FocusedTransform at %v: %w", path, err)
				}
				sharing, mutatingAfterSharing = true, true
				return track(out, "transform", nil)
			case "reread":
				rd := nodes.Full
				rd.LenientKeyNode = tgt.typedish
				_, err := rd.Read(tgt.n)
				return err
			case "partial":
				switch tgt.n.Kind() {
				case datamodel.Kind_Map:
					it := tgt.n.MapIterator()
					for j := 0; j < op.A%3 && !it.Done(); j++ {
						if _, _, err := it.Next(); err != nil {
							return err
						}
					}
				case datamodel.Kind_List:
					it := tgt.n.ListIterator()
					for j := 0; j < op.A%3 && !it.Done(); j++ {
						if _, _, err := it.Next(); err != nil {
							return err
						}
					}
				case datamodel.Kind_Bytes:
					b, err := tgt.n.AsBytes()
					if err != nil {
						return err
					}
					_ = b
				}
				return nil
			case "largebytes":
				lb, ok := tgt.n.(datamodel.LargeBytesNode)
				if !ok || tgt.n.Kind() != datamodel.Kind_Bytes {
					return nil
				}
				r1, err := lb.AsLargeBytes()
				if err != nil {
					return err
				}
				r2, err := lb.AsLargeBytes()
				if err != nil {
					return err
				}
				content := tgt.snap.S
				buf := make([]byte, 1+op.A%5)
				n1, _ := r1.Read(buf)
				if n1 > 0 && string(buf[:n1]) != content[:n1] {
					return fmt.Errorf("first reader returned %x, content starts %x", buf[:n1], content[:n1])
				}
				if op.A%2 == 1 {
					// directly after the partial read: another reader only learns the length (what a subset matcher
					// does), then the first one continues where it was
					rl, err := lb.AsLargeBytes()
					if err != nil {
						return err
					}
					if size, err := rl.Seek(0, io.SeekEnd); err != nil || size != int64(len(content)) {
						return fmt.Errorf("Seek(0, SeekEnd) on another reader = %d, %v; content has %d bytes", size, err, len(content))
					}
					cont, err := io.ReadAll(r1)
					if err != nil || string(cont) != content[n1:] {
						return fmt.Errorf("the first reader, continued after it had read %d bytes and another reader had sought to the end, returns %x (err %v); the rest of the content is %x", n1, cont, err, content[n1:])
					}
				}
				// a second reader must start at the beginning whatever the first one did
				all, err := io.ReadAll(r2)
				if err != nil || string(all) != content {
					return fmt.Errorf("a second AsLargeBytes reader, used after the first read %d bytes, returns %x; content is %x", n1, all, content)
				}
				// a third reader only learns the length (what a subset matcher does); the first, partly consumed
				// reader then continues where it was
				r3, err := lb.AsLargeBytes()
				if err != nil {
					return err
				}
				if size, err := r3.Seek(0, io.SeekEnd); err != nil || size != int64(len(content)) {
					return fmt.Errorf("Seek(0, SeekEnd) on a third reader = %d, %v; content has %d bytes", size, err, len(content))
				}
				if op.A%2 == 0 {
					cont, err := io.ReadAll(r1)
					if err != nil || string(cont) != content[n1:] {
						return fmt.Errorf("the first reader, continued after it had read %d bytes and another reader had sought to the end, returns %x (err %v); the rest of the content is %x", n1, cont, err, content[n1:])
					}
				}
				if _, err := r1.Seek(0, io.SeekEnd); err != nil {
					return err
				}
				rest, _ := io.ReadAll(r1)
				if len(rest) != 0 {
					return fmt.Errorf("reader at end returned %d bytes", len(rest))
				}
				if _, err := r1.Seek(int64(op.B%(len(content)+1)), io.SeekStart); err != nil {
					return err
				}
				rest, _ = io.ReadAll(r1)
				if string(rest) != content[op.B%(len(content)+1):] {
					return fmt.Errorf("after Seek(%d) the reader returns %x", op.B%(len(content)+1), rest)
				}
				mutatingAfterSharing = true
				return nil
			case "encode":
				var w bytes.Buffer
				if op.A%2 == 0 {
					_ = dagcbor.Encode(tgt.n, &w)
				} else {
					_ = dagjson.Encode(tgt.n, &w)
				}
				return nil
			case "reset":
				if tgt.nb == nil {
					return nil
				}
				tgt.nb.Reset()
				v2 := op.V
				if tgt.regen != nil && op.B%3 == 0 {
					// first an attempt the typed builder refuses — a value of its type with an entry it does not know, or
					// a scalar of another kind — then Reset again: a refused build leaves no trace on finished nodes either
					bad := tgt.regen(op.B, op.A)
					if bad.K == val.Map {
						bad.Ents = append(append([]val.Ent{}, bad.Ents...), val.Ent{K: "zz-unknown", V: val.MkBool(true)})
					} else {
						bad = val.MkFloat(1.5)
					}
					quietly(func() { _ = nodes.Assemble(tgt.nb, bad, nodes.NewProg(op.Prog), 0) })
					tgt.nb.Reset()
					rec.Class("refused-build-before-reuse")
				}
				if tgt.regen != nil {
					v2 = tgt.regen(op.A, op.B)
				} else if nodes.Impl(op.Impl) != nodes.BasicAny || true {
					// a kind-specific builder can only rebuild its own kind; the tracked impl is unknown here
					if v2.K != tgt.snap.K {
						v2 = tgt.snap
						if m, ok := val.Mutate(tgt.snap, 0, op.A); ok && m.K == tgt.snap.K {
							v2 = m
						}
					}
				}
				if v2.Has(func(x val.V) bool { return x.K == val.Uint }) && v2.K == val.Uint {
					return nil
				}
				if err := nodes.Assemble(tgt.nb, v2, nodes.NewProg(op.Prog), 0); err != nil {
					return fmt.Errorf("assemble after Reset: %w", err)
				}
				mutatingAfterSharing = true
				nb, regen := tgt.nb, tgt.regen
				tgt.nb = nil
				if err := track(nb.Build(), "reset-reuse", nb); err != nil {
					return err
				}
				ts[len(ts)-1].regen = regen
				return nil
			case "resetassign":
				// Reset the producing builder, then fill it by AssignNode of a node of ANOTHER implementation holding
				// another value of the same kind (the generic copy path of the builder's AssignNode)
				if tgt.nb == nil || tgt.regen != nil || tgt.snap.K == val.Uint {
					return nil
				}
				v2 := tgt.snap
				if m, ok := val.Mutate(tgt.snap, 0, op.A); ok && m.K == tgt.snap.K {
					v2 = m
				}
				if v2.Has(func(x val.V) bool { return x.K == val.Uint }) {
					return nil
				}
				src, err := nodes.Build(v2, nodes.NewProg(op.Prog), nodes.ProtoFor(nodes.Impl(op.Impl), v2.K))
				if err != nil {
					return fmt.Errorf("building the source: %w", err)
				}
				tgt.nb.Reset()
				if err := tgt.nb.AssignNode(src); err != nil {
					return fmt.Errorf("AssignNode after Reset: %w", err)
				}
				sharing, mutatingAfterSharing = true, true
				nb := tgt.nb
				tgt.nb = nil
				return track(nb.Build(), "reset-assignnode/"+op.Impl, nb)
			case "assignroot":
				nb := nodes.ProtoFor(nodes.Impl(op.Impl), tgt.snap.K).NewBuilder()
				if err := nb.AssignNode(tgt.n); err != nil {
					if tgt.snap.K == val.Uint {
						return nil
					}
					return fmt.Errorf("AssignNode(root): %w", err)
				}
				n2 := nb.Build()
				sharing = true
				if err := track(n2, "assignroot/"+op.Impl, nil); err != nil {
					return err
				}
				// now reuse that builder for something else
				nb.Reset()
				if err := nodes.Assemble(nb, tgt.snap, nodes.NewProg(op.Prog), 0); err == nil {
					mutatingAfterSharing = true
					return track(nb.Build(), "assignroot-reuse", nb)
				}
				return nil
			}
			return fmt.Errorf("unknown op %q", kind)
		})
		if err != nil {
			return fmt.Errorf("%s: %w", where, err)
		}
		if err := c11CheckAll(ts, where); err != nil {
			return err
		}
	}
	b, _ := jsonMarshal(c)
	nt := len(c.Ops) >= 3 && sharing && mutatingAfterSharing
	rec.Case(val.HashBytes(b), nt, fmt.Sprintf("tracked:%d", len(ts)/4*4))
	for _, t := range ts {
		rec.Class("producer:" + t.from)
	}
	if nt && rec.WantSample() && len(b) < 3000 {
		rec.Sample(c)
	}
	return nil
}

var _ = selector.Matcher{}

var c11Part = evid.Part[C11Case]{
	Prop: "C11", Name: "histories", Quick: 1500, Thorough: 600000,
	Rule: "history of ≤30 operations over a table of tracked nodes: producers = builders (all implementations and call programs; typed struct / typed-map builders of the generated code in node/gendemo and of bindnode, at type and representation level), decoders (input buffer overwritten afterwards), reader-backed bytes nodes, subset and plain selector matches, visited children of walks, FocusedTransform results, Copy targets, containers embedding a tracked node followed by more siblings, root AssignNode followed by Reset and reuse, Reset and reuse of the producing builder (by assembly, or by AssignNode of a node of another implementation); other actions = full / partial / repeated reads, AsLargeBytes with interleaved readers and seeks, encoding; after EVERY operation every tracked node is read twice and must equal its snapshot; non-trivial = ≥3 operations including a structure-sharing one followed by a potentially mutating one; distinct by history",
	Gen: func(t *rapid.T) C11Case {
		var c C11Case
		n := rapid.IntRange(1, 30).Draw(t, "nops")
		p := val.Profile{MaxDepth: 3, MaxWidth: 4, Uint: true, Float: true, Bytes: true, Links: true, Null: true}
		for i := 0; i < n; i++ {
			op := C11Op{Kind: rapid.SampledFrom(c11OpKinds).Draw(t, "kind"), Target: rapid.IntRange(0, 40).Draw(t, "target"), Impl: string(rapid.SampledFrom(nodes.Impls).Draw(t, "impl")),
				A: rapid.IntRange(0, 50).Draw(t, "a"), B: rapid.IntRange(0, 50).Draw(t, "b"), Prog: rapid.SliceOfN(rapid.Byte(), 0, 8).Draw(t, "prog")}
			switch op.Kind {
			case "build", "decode", "transform", "reset":
				op.V = val.DrawV(t, &p, "v")
				if rapid.IntRange(0, 3).Draw(t, "bytesroot") == 0 {
					op.V = val.MkBytes([]byte(val.DrawText(t, "bytes", false, 6) + "0123456789"))
				}
			case "bytesreader":
				op.V = val.MkBytes([]byte(val.DrawText(t, "bytes", false, 6) + "abcdefghij"))
			case "embed":
				ne := rapid.IntRange(0, 3).Draw(t, "nextra")
				for j := 0; j < ne; j++ {
					op.Extra = append(op.Extra, val.DrawV(t, &p, "extra"))
				}
			}
			c.Ops = append(c.Ops, op)
		}
		return c
	},
	Check: c11Check,
}.Reg()

func TestC11_Histories(t *testing.T) { c11Part.Run(t) }
