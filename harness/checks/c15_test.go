package checks

import (
	"errors"
	"fmt"
	"io"
	"strings"
	"sync"
	"testing"

	"github.com/ipld/go-ipld-prime/datamodel"
	"github.com/ipld/go-ipld-prime/linking"
	"github.com/ipld/go-ipld-prime/node/basicnode"
	"github.com/ipld/go-ipld-prime/traversal"
	"github.com/ipld/go-ipld-prime/traversal/selector/builder"
	"pgregory.net/rapid"

	"verif/evid"
	"verif/graph"
	"verif/nodes"
	"verif/refsel"
	"verif/selx"
	"verif/val"
)

func c15HasSubset(s refsel.Sel) bool {
	if s.Subset != nil {
		return true
	}
	if s.Next != nil && c15HasSubset(*s.Next) {
		return true
	}
	if s.Seq != nil && c15HasSubset(*s.Seq) {
		return true
	}
	for _, f := range s.Fields {
		if c15HasSubset(f.Sel) {
			return true
		}
	}
	for _, m := range s.Members {
		if c15HasSubset(m) {
			return true
		}
	}
	return false
}

// C15: traversal controls only restrict a walk; they never change what it would visit.

type C15Case struct {
	G    graph.Graph `json:"graph"`
	S    refsel.Sel  `json:"selector"`
	Skip []int       `json:"skip"` // indices (mod number of loads of the unrestricted walk) of links the loader skips
}

const bigBudget = 1 << 40

// c15StepConstant: how many units beyond the number of segments Get / Focus need to follow a path. The
// reference is the selector walk along the same path (explore-fields clauses down to a matcher), which visits
// the start node and one node per segment, each visit costing one unit: the constant is measured on that walk
// over a link-free three-level map, and Get / Focus, which step over the same nodes, must need the same.
var c15StepConstants sync.Map

func c15StepConstant(fn string) int {
	if v, ok := c15StepConstants.Load("walk"); ok {
		return v.(int)
	}
	plain := nodes.MustBuild(val.MkMap(val.Ent{K: "a", V: val.MkMap(val.Ent{K: "b", V: val.MkMap(val.Ent{K: "c", V: val.MkInt(1)})})}))
	ssb := builder.NewSelectorSpecBuilder(basicnode.Prototype.Any)
	field := func(name string, next builder.SelectorSpec) builder.SelectorSpec {
		return ssb.ExploreFields(func(b builder.ExploreFieldsSpecBuilder) { b.Insert(name, next) })
	}
	sel, err := field("a", field("b", field("c", ssb.Matcher()))).Selector()
	c := 1
	if err == nil {
		for N := 0; N <= 8; N++ {
			reached := false
			prog := traversal.Progress{Budget: &traversal.Budget{NodeBudget: int64(N), LinkBudget: bigBudget}}
			e := prog.WalkMatching(plain, sel, func(p traversal.Progress, _ datamodel.Node) error {
				reached = reached || p.Path.String() == "a/b/c"
				return nil
			})
			if e == nil && reached {
				c = N - 3
				break
			}
		}
	}
	c15StepConstants.Store("walk", c)
	return c
}

func isPrefix(a, b []string) bool {
	if len(a) > len(b) {
		return false
	}
	for i := range a {
		if a[i] != b[i] {
			return false
		}
	}
	return true
}

func c15Check(c C15Case, rec *evid.Rec) error {
	ref := refsel.Walk(c.G, c.S)
	if ref.Err != "" || len(ref.Visits) > 400 {
		rec.Class("skipped:too-big")
		return nil
	}
	real, err := graph.Realise(c.G, nil)
	if err != nil {
		return err
	}
	sel, err := selx.CompileSpec(c.S)
	if err != nil {
		return fmt.Errorf("selector %s does not compile: %w", c.S, err)
	}
	cfg := func() *traversal.Config { return selx.Config(real) }
	base := selx.WalkAdv(real, traversal.Progress{Cfg: cfg()}, sel)
	if base.Err != nil {
		return fmt.Errorf("unrestricted walk of %s failed: %w", c.S, base.Err)
	}
	U, Lds := base.Visits, base.Loads
	if d := selx.DiffVisits(U, ref.Visits); d != "" {
		return fmt.Errorf("unrestricted walk of %s differs from the reference (see C07): %s", c.S, d)
	}
	if d := selx.DiffLoads(Lds, ref.Loads); d != "" {
		return fmt.Errorf("unrestricted walk of %s loads differ from the reference (see C07): %s", c.S, d)
	}
	V, L := len(U), len(Lds)
	binding := map[string]bool{}
	budgetErr := func(err error) bool {
		var be *traversal.ErrBudgetExceeded
		return errors.As(err, &be)
	}
	// 1. node budget
	for N := 0; N <= V+1; N++ {
		if V > 40 && N%5 != 0 && N < V-2 {
			continue
		}
		got := selx.WalkAdv(real, traversal.Progress{Cfg: cfg(), Budget: &traversal.Budget{NodeBudget: int64(N), LinkBudget: bigBudget}}, sel)
		k := N
		if k > V {
			k = V
		}
		if d := selx.DiffVisits(got.Visits, U[:k]); d != "" {
			return fmt.Errorf("node budget %d (unrestricted walk of %s makes %d visits): %s", N, c.S, V, d)
		}
		if N < V {
			if got.Err == nil || !budgetErr(got.Err) {
				return fmt.Errorf("node budget %d < %d visits of %s: want ErrBudgetExceeded, got %v", N, V, c.S, got.Err)
			}
			binding["node-budget"] = true
		} else if got.Err != nil {
			return fmt.Errorf("node budget %d suffices for the %d visits of %s, yet the walk failed: %v", N, V, c.S, got.Err)
		}
		rec.Class("walks")
	}
	// 2. link budget
	for M := 0; M <= L+1; M++ {
		got := selx.WalkAdv(real, traversal.Progress{Cfg: cfg(), Budget: &traversal.Budget{NodeBudget: bigBudget, LinkBudget: int64(M)}}, sel)
		k := M
		if k > L {
			k = L
		}
		if d := selx.DiffLoads(got.Loads, Lds[:k]); d != "" {
			return fmt.Errorf("link budget %d (unrestricted walk of %s loads %d blocks): %s", M, c.S, L, d)
		}
		wantVisits := U
		if M < L {
			wantVisits = U[:ref.VisitsBefore[M]]
		}
		if d := selx.DiffVisits(got.Visits, wantVisits); d != "" {
			return fmt.Errorf("link budget %d of %d loads (%s): %s", M, L, c.S, d)
		}
		if M < L {
			if got.Err == nil || !budgetErr(got.Err) {
				return fmt.Errorf("link budget %d < %d loads of %s: want ErrBudgetExceeded, got %v", M, L, c.S, got.Err)
			}
			binding["link-budget"] = true
		} else if got.Err != nil {
			return fmt.Errorf("link budget %d suffices for %d loads of %s, yet the walk failed: %v", M, L, c.S, got.Err)
		}
		rec.Class("walks")
	}
	// 1'. the node budget on WalkLocal (every node of the root block in document order, links not followed): N lets
	// it make exactly the first N visits and then stops it with a budget error; a budget equal to the number of
	// nodes changes nothing, whatever the last node is
	{
		var UL []string
		if lerr := (traversal.Progress{Cfg: cfg()}).WalkLocal(real.Root, func(p traversal.Progress, _ datamodel.Node) error {
			UL = append(UL, p.Path.String())
			return nil
		}); lerr == nil && len(UL) <= 200 {
			VL := len(UL)
			for _, N := range []int{0, 1, VL / 2, VL - 1, VL, VL + 1} {
				if N < 0 {
					continue
				}
				var got []string
				gerr := evid.Guard("WalkLocal", func() error {
					return traversal.Progress{Cfg: cfg(), Budget: &traversal.Budget{NodeBudget: int64(N), LinkBudget: bigBudget}}.WalkLocal(real.Root, func(p traversal.Progress, _ datamodel.Node) error {
						got = append(got, p.Path.String())
						return nil
					})
				})
				wantN := N
				if wantN > VL {
					wantN = VL
				}
				if len(got) != wantN || fmt.Sprint(got) != fmt.Sprint(UL[:wantN]) {
					return fmt.Errorf("WalkLocal makes %d visits; with a node budget of %d it made %d (%v), want its first %d", VL, N, len(got), got, wantN)
				}
				if N >= VL && gerr != nil {
					return fmt.Errorf("WalkLocal makes %d visits; with a node budget of %d it failed: %v", VL, N, gerr)
				}
				if N < VL && (gerr == nil || !budgetErr(gerr)) {
					return fmt.Errorf("WalkLocal makes %d visits; with a node budget of %d: want ErrBudgetExceeded, got %v", VL, N, gerr)
				}
				if N < VL {
					binding["local-node-budget"] = true
				}
				rec.Class("walks")
			}
		}
	}
	// 2a. the link budget on the transforming walk (identity function): it crosses the same links as the
	// read-only walk, so a budget below their number must stop it with a budget error after exactly M loads
	{
		ident := func(_ traversal.Progress, n datamodel.Node) (datamodel.Node, error) { return n, nil }
		*real.Loads = (*real.Loads)[:0]
		_, terr := traversal.Progress{Cfg: cfg()}.WalkTransforming(real.Root, sel, ident)
		Lt := len(*real.Loads)
		if terr == nil && Lt > 0 && Lt <= 12 {
			for M := 0; M <= Lt+1; M++ {
				*real.Loads = (*real.Loads)[:0]
				var gerr error
				gerr = evid.Guard("WalkTransforming", func() error {
					_, e := traversal.Progress{Cfg: cfg(), Budget: &traversal.Budget{NodeBudget: bigBudget, LinkBudget: int64(M)}}.WalkTransforming(real.Root, sel, ident)
					return e
				})
				loads := len(*real.Loads)
				if M >= Lt {
					if gerr != nil || loads != Lt {
						return fmt.Errorf("WalkTransforming of %s loads %d blocks; with a link budget of %d it made %d loads and returned %v", c.S, Lt, M, loads, gerr)
					}
				} else {
					if gerr == nil || !budgetErr(gerr) {
						return fmt.Errorf("WalkTransforming of %s loads %d blocks; with a link budget of %d: want ErrBudgetExceeded, got %v (%d loads)", c.S, Lt, M, gerr, loads)
					}
					if loads > M {
						return fmt.Errorf("WalkTransforming of %s with a link budget of %d made %d loads", c.S, M, loads)
					}
					binding["transform-link-budget"] = true
				}
				rec.Class("walks")
			}
		}
	}
	// 2a'. the node budget on the transforming walk (identity function): it charges every node it walks, matched
	// or merely explored, like the read-only walk; a budget below the unrestricted visit count stops it
	if V <= 60 {
		ident := func(_ traversal.Progress, n datamodel.Node) (datamodel.Node, error) { return n, nil }
		if _, terr := (traversal.Progress{Cfg: cfg()}).WalkTransforming(real.Root, sel, ident); terr == nil {
			for _, N := range []int{0, 1, V / 2, V - 1, V, V + 1} {
				if N < 0 {
					continue
				}
				gerr := evid.Guard("WalkTransforming", func() error {
					_, e := traversal.Progress{Cfg: cfg(), Budget: &traversal.Budget{NodeBudget: int64(N), LinkBudget: bigBudget}}.WalkTransforming(real.Root, sel, ident)
					return e
				})
				if N >= V && gerr != nil {
					return fmt.Errorf("WalkTransforming of %s: the walk makes %d visits; with a node budget of %d it failed: %v", c.S, V, N, gerr)
				}
				if N < V && (gerr == nil || !budgetErr(gerr)) {
					return fmt.Errorf("WalkTransforming of %s: the walk makes %d visits; with a node budget of %d: want ErrBudgetExceeded, got %v", c.S, V, N, gerr)
				}
				rec.Class("walks")
			}
		}
	}
	// 2b. the link budget on the path-directed functions: for visited paths that cross links, Get and Focus
	// with a budget of M loads either do exactly what they do without a budget (M suffices) or stop with a
	// budget error after exactly M loads
	doneGet := 0
	for i := len(U) - 1; i >= 0 && doneGet < 6; i-- {
		path := base.Paths[i]
		if path.Len() == 0 {
			continue
		}
		*real.Loads = (*real.Loads)[:0]
		full, ferr := traversal.Progress{Cfg: cfg()}.Get(real.Root, path)
		Lp := len(*real.Loads)
		if ferr != nil || Lp == 0 {
			continue
		}
		doneGet++
		*real.Loads = (*real.Loads)[:0]
		LpTransform := -1
		if _, terr := (traversal.Progress{Cfg: cfg()}).FocusedTransform(real.Root, path, func(_ traversal.Progress, n datamodel.Node) (datamodel.Node, error) { return n, nil }, false); terr == nil {
			LpTransform = len(*real.Loads)
		}
		for M := 0; M <= Lp+1; M++ {
			for _, fn := range []string{"Get", "Focus", "FocusedTransform"} {
				*real.Loads = (*real.Loads)[:0]
				prog := traversal.Progress{Cfg: cfg(), Budget: &traversal.Budget{NodeBudget: bigBudget, LinkBudget: int64(M)}}
				var got datamodel.Node
				var gerr error
				gerr = evid.Guard(fn, func() error {
					var e error
					if fn == "Get" {
						got, e = prog.Get(real.Root, path)
					} else if fn == "FocusedTransform" {
						// the identity update along the path: it crosses the same links (its own link-crossing code)
						_, e = prog.FocusedTransform(real.Root, path, func(_ traversal.Progress, n datamodel.Node) (datamodel.Node, error) {
							got = n
							return n, nil
						}, false)
					} else {
						e = prog.Focus(real.Root, path, func(_ traversal.Progress, n datamodel.Node) error { got = n; return nil })
					}
					return e
				})
				loads := len(*real.Loads)
				Lp := Lp
				if fn == "FocusedTransform" {
					Lp = LpTransform // it does not dereference a link that is the target itself
					if Lp < 0 {
						continue
					}
				}
				if M >= Lp {
					if gerr != nil || loads != Lp {
						return fmt.Errorf("%s of %q crosses %d links; with a link budget of %d it made %d loads and returned %v", fn, path, Lp, M, loads, gerr)
					}
					if eq, _ := deepEqualGuarded(got, full); !eq && fn != "FocusedTransform" {
						return fmt.Errorf("%s of %q with a sufficient link budget %d returns another node", fn, path, M)
					}
				} else {
					if gerr == nil || !budgetErr(gerr) {
						return fmt.Errorf("%s of %q crosses %d links; with a link budget of %d: want ErrBudgetExceeded, got %v (%d loads)", fn, path, Lp, M, gerr, loads)
					}
					if loads != M {
						return fmt.Errorf("%s of %q with a link budget of %d made %d loads", fn, path, M, loads)
					}
					binding["get-link-budget"] = true
				}
				rec.Class("gets")
			}
		}
		// 2c. node budget on the same functions. Get / Focus: every node on the path costs one unit, whether the
		// step stays in the block or crosses links (those are charged to the link budget): the threshold is
		// "number of segments + c", c being what a selector walk along a path needs beyond the segment count
		// (measured on the real walk, not assumed: it visits the start node too). FocusedTransform has its own accounting at links, so its threshold T is
		// measured on the path itself and only two things are required of it: below T the budget error, from T on
		// success; and every further step taken below the end of the existing data (createParents) costs exactly
		// one more unit.
		S := path.Len()
		for _, fn := range []string{"Get", "Focus"} {
			need := S + c15StepConstant(fn)
			for N := need - 2; N <= need+1; N++ {
				if N < 0 {
					continue
				}
				prog := traversal.Progress{Cfg: cfg(), Budget: &traversal.Budget{NodeBudget: int64(N), LinkBudget: bigBudget}}
				var got datamodel.Node
				gerr := evid.Guard(fn, func() error {
					var e error
					if fn == "Get" {
						got, e = prog.Get(real.Root, path)
					} else {
						e = prog.Focus(real.Root, path, func(_ traversal.Progress, n datamodel.Node) error { got = n; return nil })
					}
					return e
				})
				if N >= need {
					if gerr != nil {
						return fmt.Errorf("%s along %d segments (%d links crossed) needs a node budget of %d like any path of that length; with %d it returned %v", fn, S, Lp, need, N, gerr)
					}
					if eq, _ := deepEqualGuarded(got, full); !eq {
						return fmt.Errorf("%s of %q with a sufficient node budget %d returns another node", fn, path, N)
					}
				} else {
					if gerr == nil || !budgetErr(gerr) {
						return fmt.Errorf("%s along %d segments (%d links crossed) needs a node budget of %d like any path of that length; with %d: want ErrBudgetExceeded, got %v", fn, S, Lp, need, N, gerr)
					}
					binding["get-node-budget"] = true
				}
				rec.Class("gets-node-budget:" + fn)
			}
		}
		newLeaf := basicnode.NewString("made")
		threshold := func(p datamodel.Path, create bool) (int, error) {
			run := func(b *traversal.Budget) error {
				return evid.Guard("FocusedTransform", func() error {
					_, e := traversal.Progress{Cfg: cfg(), Budget: b}.FocusedTransform(real.Root, p, func(_ traversal.Progress, n datamodel.Node) (datamodel.Node, error) {
						if create {
							return newLeaf, nil
						}
						return n, nil
					}, create)
					return e
				})
			}
			if run(nil) != nil {
				return -1, nil // not a path this function can follow on this graph
			}
			T := -1
			for N := 0; N <= p.Len()+Lp+4; N++ {
				e := run(&traversal.Budget{NodeBudget: int64(N), LinkBudget: bigBudget})
				switch {
				case e == nil && T < 0:
					T = N
				case e != nil && T >= 0:
					return -1, fmt.Errorf("FocusedTransform of %q succeeds with a node budget of %d but with %d returns %v", p, T, N, e)
				case e != nil && !budgetErr(e):
					return -1, fmt.Errorf("FocusedTransform of %q, which succeeds without a budget, with a node budget of %d: want ErrBudgetExceeded, got %v", p, N, e)
				}
			}
			if T < 0 {
				return -1, fmt.Errorf("FocusedTransform of %q succeeds without a budget but with no node budget up to %d", p, p.Len()+Lp+4)
			}
			rec.Class("gets-node-budget:FocusedTransform")
			return T, nil
		}
		if _, err := threshold(path, false); err != nil {
			return err
		}
		if full.Kind() == datamodel.Kind_Map {
			p1 := path.AppendSegmentString("zz-made-1")
			T1, err := threshold(p1, true)
			if err != nil {
				return err
			}
			for extra := 1; extra <= 2 && T1 >= 0; extra++ {
				p1 = p1.AppendSegmentString(fmt.Sprintf("zz-made-%d", extra+1))
				Tn, err := threshold(p1, true)
				if err != nil {
					return err
				}
				if Tn >= 0 && Tn != T1+extra {
					return fmt.Errorf("FocusedTransform creating parents: a new entry under %q needs a node budget of %d, one %d steps further below needs %d (each step costs one)", path, T1, extra, Tn)
				}
				binding["transform-createparents-node-budget"] = true
			}
		}
	}
	// 3. start-at path
	seenPath := map[string]bool{}
	for i := range U {
		if seenPath[U[i].Path] {
			continue // ambiguous start point; never happens with the generated key alphabet
		}
		seenPath[U[i].Path] = true
		if V > 40 && i%4 != 0 {
			continue
		}
		cf := cfg()
		cf.StartAtPath = base.Paths[i]
		if i%2 == 1 {
			// the same path as a caller would write it down: every segment string-stored (the walk's own paths
			// hold list positions as integers)
			var ss []datamodel.PathSegment
			for _, sg := range base.Paths[i].Segments() {
				ss = append(ss, datamodel.PathSegmentOfString(sg.String()))
			}
			cf.StartAtPath = datamodel.NewPath(ss)
		}
		got := selx.WalkAdv(real, traversal.Progress{Cfg: cf}, sel)
		if got.Err != nil {
			return fmt.Errorf("start-at %q (%s) failed: %v", U[i].Path, c.S, got.Err)
		}
		want := U[i:]
		if base.Paths[i].Len() == 0 {
			want = U
		}
		if d := selx.DiffVisits(got.Visits, want); d != "" {
			return fmt.Errorf("start-at %q (visit %d of %d, %s): %s", U[i].Path, i, V, c.S, d)
		}
		var segs []string
		for _, s := range base.Paths[i].Segments() {
			segs = append(segs, s.String())
		}
		var wantLoads []string
		for j := range Lds {
			if ref.VisitsBefore[j] >= i || isPrefix(ref.LoadSegs[j], segs) {
				wantLoads = append(wantLoads, Lds[j])
			}
		}
		if d := selx.DiffLoads(got.Loads, wantLoads); d != "" {
			return fmt.Errorf("start-at %q (%s): blocks loaded differ from 'ancestors of the start point plus everything from it on': %s (unrestricted loads %d)", U[i].Path, c.S, d, L)
		}
		if i > 0 {
			binding["start-at"] = true
		}
		if len(wantLoads) < L {
			binding["start-at-skips-loads"] = true
		}
		rec.Class("walks")
	}
	// 4. visit links only once
	{
		cf := cfg()
		cf.LinkVisitOnlyOnce = true
		got := selx.WalkAdv(real, traversal.Progress{Cfg: cf}, sel)
		if got.Err != nil {
			return fmt.Errorf("visit-once walk of %s failed: %v", c.S, got.Err)
		}
		count := map[string]int{}
		for _, l := range got.Loads {
			count[l]++
			if count[l] > 1 {
				return fmt.Errorf("visit-once walk of %s loaded link %x twice", c.S, l)
			}
		}
		// subsequence of U
		j := 0
		for _, v := range got.Visits {
			for j < len(U) && !(U[j].Path == v.Path && U[j].Reason == v.Reason && val.Equal(U[j].Value, v.Value, val.Ordered)) {
				j++
			}
			if j == len(U) {
				return fmt.Errorf("visit-once walk of %s: visit (%q, %s) is not part of the unrestricted walk in order", c.S, v.Path, v.Reason)
			}
			j++
		}
		once := refsel.WalkOnce(c.G, c.S)
		if d := selx.DiffVisits(got.Visits, once.Visits); d != "" {
			return fmt.Errorf("visit-once walk of %s differs from 'the unrestricted walk minus the subtrees below repeated links': %s", c.S, d)
		}
		if len(once.Visits) < V {
			binding["visit-once"] = true
		}
		rec.Class("walks")
	}
	// 5. a loader that skips blocks
	if L > 0 && len(c.Skip) > 0 {
		skip := map[string]bool{}
		for _, i := range c.Skip {
			skip[Lds[i%L]] = true
		}
		cf := cfg()
		inner := cf.LinkSystem.StorageReadOpener
		cf.LinkSystem.StorageReadOpener = func(lc linking.LinkContext, l datamodel.Link) (io.Reader, error) {
			if skip[l.Binary()] {
				*real.Loads = append(*real.Loads, l.Binary())
				return nil, traversal.SkipMe{}
			}
			return inner(lc, l)
		}
		got := selx.WalkAdv(real, traversal.Progress{Cfg: cf}, sel)
		if got.Err != nil {
			return fmt.Errorf("walk of %s with a skipping loader failed: %v", c.S, got.Err)
		}
		want := refsel.WalkSkipping(c.G, c.S, skip)
		if d := selx.DiffVisits(got.Visits, want.Visits); d != "" {
			return fmt.Errorf("skipping loader (%s): visits differ from 'unrestricted minus the skipped blocks' subtrees': %s", c.S, d)
		}
		if d := selx.DiffLoads(got.Loads, want.Loads); d != "" {
			return fmt.Errorf("skipping loader (%s): %s", c.S, d)
		}
		if len(want.Visits) < V {
			binding["skip"] = true
		}
		rec.Class("walks")
		// the transforming walk (identity function) under the same loader: whatever it hands to the function, it
		// hands over under the path at which the read-only walk matches that very value — skipped blocks must not
		// shift the positions of what comes after them
		matched := map[string][]val.V{}
		for _, v := range want.Visits {
			if v.Reason == "m" {
				matched[v.Path] = append(matched[v.Path], v.Value)
			}
		}
		var bad error
		plainMatchers := !c15HasSubset(c.S) // the transform contract does not define slicing
		terr := evid.Guard("WalkTransforming", func() error {
			if !plainMatchers {
				return nil
			}
			_, e := traversal.Progress{Cfg: cf}.WalkTransforming(real.Root, sel, func(p traversal.Progress, n datamodel.Node) (datamodel.Node, error) {
				if v, rerr := nodes.Read(n); rerr == nil && bad == nil {
					ok := false
					for _, w := range matched[p.Path.String()] {
						ok = ok || val.Equal(v, w, val.Ordered)
					}
					if !ok {
						bad = fmt.Errorf("WalkTransforming of %s with a skipping loader handed %s to the function under path %q, where the read-only walk matches %d other value(s)", c.S, v.Short(100), p.Path.String(), len(matched[p.Path.String()]))
					}
				}
				return n, nil
			})
			return e
		})
		if terr != nil && strings.HasPrefix(terr.Error(), "PANIC") {
			return fmt.Errorf("WalkTransforming of %s with a skipping loader: %v", c.S, terr)
		}
		if terr == nil && bad != nil {
			return bad
		}
	}
	var cls []string
	for k := range binding {
		cls = append(cls, "binding:"+k)
	}
	b, _ := jsonMarshal(c)
	rec.Case(val.HashBytes(b), len(binding) >= 2, cls...)
	if len(binding) >= 3 && rec.WantSample() && len(b) < 2500 {
		rec.Sample(map[string]any{"selector": c.S.String(), "root": c.G.Root.String(), "blocks": len(c.G.Blocks), "visits": V, "loads": L, "binding_controls": cls})
	}
	return nil
}

var c15Part = evid.Part[C15Case]{
	Prop: "C15", Name: "controls", Quick: 700, Thorough: 280000,
	Rule: "(graph, selector) from the C07 generators; against the unrestricted WalkAdv: node budget N for every N in 0..V+1 (and around the visit count of WalkLocal over the root block), link budget M for every M in 0..L+1 (also on WalkTransforming with the identity function, and on Get, Focus and FocusedTransform (identity) along visited paths that cross links), StartAtPath for every visited path (the walk's own path object, or the same path with every segment string-stored), LinkVisitOnlyOnce, and a loader returning SkipMe for a drawn set of links (also under the transforming walk, whose function must be handed values under the paths at which the read-only walk matches them) — each control alone; non-trivial = at least two controls actually bind (N<V, M<L, start index>0, a repeated link, a skipped link that is loaded); distinct by (graph, selector, skip set); the class 'walks' counts restricted walks executed",
	Gen: func(t *rapid.T) C15Case {
		c := genGraphSelOpt(t, rapid.IntRange(1, 4).Draw(t, "seldepth"), true)
		if rapid.IntRange(0, 2).Draw(t, "broad") == 0 {
			// a broad selector, so that the controls have something to restrict
			c.S = refsel.Rec(int64(rapid.SampledFrom([]int{-1, 2, 3, 5, 8}).Draw(t, "limit")), refsel.Union(refsel.Match(), refsel.All(refsel.Edge())))
		}
		return C15Case{G: c.G, S: c.S, Skip: rapid.SliceOfN(rapid.IntRange(0, 10), 0, 2).Draw(t, "skip")}
	},
	Check: c15Check,
}.Reg()

func TestC15_Controls(t *testing.T) { c15Part.Run(t) }
