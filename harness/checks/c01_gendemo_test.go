package checks

import (
	"fmt"
	"testing"

	"github.com/ipld/go-ipld-prime/datamodel"
	"github.com/ipld/go-ipld-prime/node/basicnode"
	"github.com/ipld/go-ipld-prime/node/gendemo"
	"pgregory.net/rapid"

	"verif/evid"
	"verif/nodes"
	"verif/typedx"
	"verif/val"
)

// C01 (and the duplicate-key part of C12) on the checked-in generated code in node/gendemo:
// struct Msg3{whee,woot,waga Int}, typed map {String:Msg3}, kinded union {Foo int | Bar bool | Baz string}.

type C01GenCase struct {
	Kind  string   `json:"kind"` // msg3 | map | union
	Ints  []int64  `json:"ints"`
	Keys  []string `json:"keys"`  // val.Txt
	Which int      `json:"which"` // union member
	Str   string   `json:"str"`   // val.Txt
	Prog  []byte   `json:"prog"`
	Dup   int      `json:"dup"` // map: inject a repeated key before this entry (0 = none); style = Dup%3
}

func msg3(a, b, c int64) val.V {
	return val.MkMap(val.Ent{K: "whee", V: val.MkInt(a)}, val.Ent{K: "woot", V: val.MkInt(b)}, val.Ent{K: "waga", V: val.MkInt(c)})
}

func c01GenCheck(c C01GenCase, rec *evid.Rec) error {
	for len(c.Ints) < 3 {
		c.Ints = append(c.Ints, 0)
	}
	var tview, rview val.V
	var tp, rp datamodel.NodePrototype
	switch c.Kind {
	case "msg3":
		tview = msg3(c.Ints[0], c.Ints[1], c.Ints[2])
		rview = tview
		tp, rp = gendemo.Type.Msg3, gendemo.Type.Msg3__Repr
	case "map":
		tview = val.V{K: val.Map, Ents: []val.Ent{}}
		for i, k := range c.Keys {
			ks, _ := val.UnTxt(k)
			if _, dup := tview.Get(ks); dup {
				continue
			}
			tview.Ents = append(tview.Ents, val.Ent{K: ks, V: msg3(c.Ints[i%len(c.Ints)], int64(i), c.Ints[(i+1)%len(c.Ints)])})
		}
		rview = tview
		tp, rp = gendemo.Type.Map__String__Msg3, gendemo.Type.Map__String__Msg3__Repr
	default:
		s, _ := val.UnTxt(c.Str)
		switch c.Which % 3 {
		case 0:
			rview = val.MkInt(c.Ints[0])
			tview = val.MkMap(val.Ent{K: "Foo", V: rview})
		case 1:
			rview = val.MkBool(c.Ints[0]%2 == 0)
			tview = val.MkMap(val.Ent{K: "Bar", V: rview})
		default:
			rview = val.MkString(s)
			tview = val.MkMap(val.Ent{K: "Baz", V: rview})
		}
		tp, rp = gendemo.Type.UnionKinded, gendemo.Type.UnionKinded__Repr
	}
	what := fmt.Sprintf("gendemo %s", c.Kind)
	// struct fields may be supplied in any order (the node keeps the declared order): the entries of every Msg3
	// are permuted by the program bytes before they are assembled
	perm := func(v val.V) val.V {
		var rec func(x val.V) val.V
		rec = func(x val.V) val.V {
			if x.K != val.Map {
				return x
			}
			out := val.V{K: val.Map, Ents: make([]val.Ent, len(x.Ents))}
			for i, e := range x.Ents {
				out.Ents[i] = val.Ent{K: e.K, V: rec(e.V)}
			}
			if len(out.Ents) == 3 && out.Ents[0].K == "whee" {
				rot := 0
				if len(c.Prog) > 0 {
					rot = int(c.Prog[len(c.Prog)-1]) % 6
				}
				order := [][3]int{{0, 1, 2}, {1, 0, 2}, {1, 2, 0}, {2, 1, 0}, {2, 0, 1}, {0, 2, 1}}[rot]
				e := out.Ents
				out.Ents = []val.Ent{e[order[0]], e[order[1]], e[order[2]]}
			}
			return out
		}
		return rec(v)
	}
	n1, err := nodes.Build(perm(tview), nodes.NewProg(c.Prog), tp)
	if err != nil {
		return fmt.Errorf("%s: type-level build of %s failed: %w", what, tview.Short(200), err)
	}
	if err := typedx.CheckViews(n1, tview, rview, what+": built at type level, but"); err != nil {
		return err
	}
	n2, err := nodes.Build(perm(rview), nodes.NewProg(c.Prog), rp)
	if err != nil {
		return fmt.Errorf("%s: representation-level build of %s failed: %w", what, rview.Short(200), err)
	}
	if err := typedx.CheckViews(n2, tview, rview, what+": built at representation level, but"); err != nil {
		return err
	}
	if eq, err := deepEqualGuarded(n1, n2); err != nil || !eq {
		return fmt.Errorf("%s: DeepEqual of the two builds = %v (%v)", what, eq, err)
	}
	// copy into basicnode and compare
	nb := basicnode.Prototype.Any.NewBuilder()
	if err := evid.Guard("Copy", func() error { return datamodel.Copy(n1, nb) }); err != nil {
		return fmt.Errorf("%s: Copy failed: %w", what, err)
	}
	if cv, err := nodes.Read(nb.Build()); err != nil || !val.Equal(cv, tview, val.Ordered) {
		return fmt.Errorf("%s: Copy differs: %s (err %v)", what, val.Diff(cv, tview), err)
	}
	// finished nodes of the generated types themselves assigned with AssignNode (the generated assemblers take
	// a shortcut for "a node of my own type"): at the root, and for a typed map also entry by entry
	rn1 := n1.(interface{ Representation() datamodel.Node }).Representation()
	for level, src := range []datamodel.Node{n1, rn1} {
		np := []datamodel.NodePrototype{tp, rp}[level]
		b := np.NewBuilder()
		if err := evid.Guard("AssignNode of a node of the same generated type", func() error { return b.AssignNode(src) }); err != nil {
			return fmt.Errorf("%s: AssignNode of a finished node of the same type at the root (level %d) failed: %w", what, level, err)
		}
		if err := typedx.CheckViews(b.Build(), tview, rview, fmt.Sprintf("%s: assigned as a whole from a finished node of the same type (level %d), but", what, level)); err != nil {
			return err
		}
		if c.Kind != "map" {
			continue
		}
		b = np.NewBuilder()
		err := evid.Guard("AssignNode of own-type values into a typed map", func() error {
			ma, err := b.BeginMap(int64(len(tview.Ents)))
			if err != nil {
				return err
			}
			for i, e := range tview.Ents {
				v, err := src.LookupByString(e.K)
				if err != nil {
					return err
				}
				var va datamodel.NodeAssembler
				if (i+len(c.Prog))%2 == 0 {
					if va, err = ma.AssembleEntry(e.K); err != nil {
						return err
					}
				} else {
					if err := ma.AssembleKey().AssignString(e.K); err != nil {
						return err
					}
					va = ma.AssembleValue()
				}
				if err := va.AssignNode(v); err != nil {
					return err
				}
			}
			return ma.Finish()
		})
		if err != nil {
			return fmt.Errorf("%s: a typed map assembled from finished values of its own value type (level %d) failed: %w", what, level, err)
		}
		if err := typedx.CheckViews(b.Build(), tview, rview, fmt.Sprintf("%s: assembled from finished values of its own value type (level %d), but", what, level)); err != nil {
			return err
		}
		// and the source is what it was
		if err := typedx.CheckViews(n1, tview, rview, what+": after its values were assigned elsewhere"); err != nil {
			return err
		}
	}
	injected := false
	if c.Kind == "map" && c.Dup > 0 && len(tview.Ents) >= 2 {
		// a repeated key through each route must be rejected with a repeated-key error and leave no trace
		for level, np := range []datamodel.NodePrototype{tp, rp} {
			b := np.NewBuilder()
			err := evid.Guard("assembling with a repeated key", func() error {
				ma, err := b.BeginMap(int64(len(tview.Ents)))
				if err != nil {
					return err
				}
				for i, e := range tview.Ents {
					if i == 1+c.Dup%(len(tview.Ents)-1) {
						dup := tview.Ents[(c.Dup/3)%i].K
						var rerr error
						switch c.Dup % 3 {
						case 0:
							_, rerr = ma.AssembleEntry(dup)
						case 1:
							rerr = ma.AssembleKey().AssignString(dup)
							if rerr == nil {
								// the generated key assembler cannot see the map: the error may come from the value assembler
								rerr = ma.AssembleValue().AssignNull()
							}
						default:
							rerr = ma.AssembleKey().AssignNode(basicnode.NewString(dup))
							if rerr == nil {
								rerr = ma.AssembleValue().AssignNull()
							}
						}
						if rerr == nil {
							return fmt.Errorf("level %d: the repeated key %s was accepted", level, val.Txt(dup))
						}
						if !isRepeatedKeyErr(rerr) {
							return fmt.Errorf("level %d: the repeated key %s gave %T (%v), not a repeated-key error", level, val.Txt(dup), rerr, rerr)
						}
					}
					va, err := ma.AssembleEntry(e.K)
					if err != nil {
						return fmt.Errorf("AssembleEntry(%s) after a rejected key: %w", val.Txt(e.K), err)
					}
					if err := nodes.Assemble(va, e.V, nil, 1); err != nil {
						return err
					}
				}
				return ma.Finish()
			})
			if err != nil {
				return fmt.Errorf("%s: %w", what, err)
			}
			if err := typedx.CheckViews(b.Build(), tview, rview, what+": after a rejected repeated key"); err != nil {
				return err
			}
		}
		injected = true
	}
	bb, _ := jsonMarshal(c)
	cls := []string{"kind:" + c.Kind}
	if injected {
		cls = append(cls, "dupkey-rejected")
	}
	rec.Case(val.HashBytes(bb), c.Kind == "map" && len(tview.Ents) >= 2 || c.Kind == "union", cls...)
	if rec.WantSample() && c.Kind == "map" && len(tview.Ents) >= 2 {
		rec.Sample(map[string]any{"type_view": tview.String(), "dup": c.Dup})
	}
	return nil
}

var c01Gen = evid.Part[C01GenCase]{
	Prop: "C01", Name: "gendemo", Quick: 2000, Thorough: 200000,
	Rule: "the checked-in generated code (node/gendemo): struct Msg3, typed map {String:Msg3}, kinded union, built at type and representation level through drawn builder programs, struct fields supplied in a drawn order; full typed reader on both views, DeepEqual between routes, Copy into basicnode, and (maps) a repeated key supplied through AssembleEntry / key AssignString / key AssignNode must be rejected with a repeated-key error and leave no trace; non-trivial = a map with ≥2 entries or a union; distinct by case",
	Gen: func(t *rapid.T) C01GenCase {
		c := C01GenCase{Kind: rapid.SampledFrom([]string{"msg3", "map", "map", "union"}).Draw(t, "kind"), Which: rapid.IntRange(0, 2).Draw(t, "which"),
			Prog: rapid.SliceOfN(rapid.Byte(), 0, 12).Draw(t, "prog"), Str: val.Txt(val.DrawText(t, "str", false, 4))}
		for i := 0; i < 3; i++ {
			c.Ints = append(c.Ints, val.DrawInt(t, "int", false))
		}
		p := val.Profile{}
		for _, k := range val.DrawKeys(t, "keys", rapid.IntRange(0, 5).Draw(t, "nkeys"), &p) {
			c.Keys = append(c.Keys, val.Txt(k))
		}
		if rapid.Bool().Draw(t, "dup") {
			c.Dup = rapid.IntRange(1, 30).Draw(t, "dupn")
		}
		return c
	},
	Check: c01GenCheck,
}.Reg()

func TestC01_GenDemo(t *testing.T) { c01Gen.Run(t) }
