package checks

import (
	"bytes"
	"errors"
	"fmt"
	"io"
	"strings"
	"testing"
	"testing/iotest"

	"github.com/ipld/go-ipld-prime/codec/cbor"
	"github.com/ipld/go-ipld-prime/codec/dagcbor"
	"github.com/ipld/go-ipld-prime/datamodel"
	"github.com/ipld/go-ipld-prime/multicodec"
	"github.com/ipld/go-ipld-prime/node/basicnode"
	"pgregory.net/rapid"

	"verif/evid"
	"verif/nodes"
	"verif/refcbor"
	"verif/val"
)

// C03: DAG-CBOR decoding is strict and denotes exactly the bytes it accepts.

type C03Case struct {
	Bytes []byte `json:"bytes"`
	Mode  string `json:"mode"` // strict | relaxed | nolinks
	Note  string `json:"note,omitempty"`
}

// strict / relaxed / nolinks go through dagcbor.DecodeOptions; the remaining modes go through the public
// entry points a caller or a link system actually uses: the package functions dagcbor.Decode and cbor.Decode
// and the decoders registered for 0x71 and 0x51 (expected behaviour: strict, resp. strict without links).
var c03Modes = []string{"strict", "relaxed", "nolinks", "fn-dagcbor", "fn-cbor", "reg-0x71", "reg-0x51"}

// c03Reader serves the input through one of the reader kinds a decoder meets in practice, chosen by a
// deterministic function of the input: *bytes.Reader (an io.ByteReader), the same hidden behind a plain
// io.Reader, an io.TeeReader (what LinkSystem.Load hands a codec), one byte per Read, a reader that idles once —
// (0, nil) — between the last byte and io.EOF, one that delivers its last bytes together with io.EOF, and one that idles after every third byte.
func c03Reader(b []byte) io.Reader {
	k := len(b)
	if len(b) > 0 {
		k += int(b[len(b)-1])
	}
	switch k % 7 {
	case 6:
		// an empty read after every third byte, in the middle of whatever the decoder is reading
		return &idleEveryReader{b: b, every: 3}
	case 4:
		// all the data, then one Read that returns (0, nil) — "nothing happened", legal for an io.Reader (an empty
		// write into a pipe, a transport that wakes up empty) — and only then io.EOF
		return &idleAtEndReader{r: bytes.NewReader(b)}
	case 5:
		// the last bytes arrive together with io.EOF
		return iotest.DataErrReader(bytes.NewReader(b))
	case 1:
		return struct{ io.Reader }{bytes.NewReader(b)}
	case 2:
		return io.TeeReader(bytes.NewReader(b), io.Discard)
	case 3:
		return iotest.OneByteReader(bytes.NewReader(b))
	}
	return bytes.NewReader(b)
}

type idleAtEndReader struct {
	r    *bytes.Reader
	idle bool
}

func (r *idleAtEndReader) Read(p []byte) (int, error) {
	if r.r.Len() == 0 && !r.idle {
		r.idle = true
		return 0, nil
	}
	return r.r.Read(p)
}

type idleEveryReader struct {
	b     []byte
	every int
	n     int
}

func (r *idleEveryReader) Read(p []byte) (int, error) {
	if len(r.b) == 0 {
		return 0, io.EOF
	}
	if r.n == r.every {
		r.n = 0
		return 0, nil
	}
	if len(p) == 0 {
		return 0, nil
	}
	k := r.every - r.n
	if k > len(p) {
		k = len(p)
	}
	if k > len(r.b) {
		k = len(r.b)
	}
	copy(p, r.b[:k])
	r.b = r.b[k:]
	r.n += k
	return k, nil
}

func c03NoLinks(mode string) bool {
	return mode == "nolinks" || mode == "fn-cbor" || mode == "reg-0x51"
}

func c03Decoder(mode string) func(datamodel.NodeAssembler, io.Reader) error {
	switch mode {
	case "fn-dagcbor":
		return dagcbor.Decode
	case "fn-cbor":
		return cbor.Decode
	case "reg-0x71", "reg-0x51":
		code := uint64(0x71)
		if mode == "reg-0x51" {
			code = 0x51
		}
		d, err := multicodec.LookupDecoder(code)
		if err != nil {
			return func(datamodel.NodeAssembler, io.Reader) error {
				return fmt.Errorf("HARNESS: no decoder registered for 0x%x", code)
			}
		}
		return d
	}
	opts := dagcbor.DecodeOptions{AllowLinks: mode != "nolinks", RelaxedDecode: mode == "relaxed"}
	return opts.Decode
}

func c03Ref(b []byte, mode string) (val.V, bool, error) {
	o := refcbor.Opts{CidOK: cidOK, Relaxed: mode == "relaxed", NoLinks: c03NoLinks(mode)}
	v, _, dup, err := refcbor.Decode(b, o)
	return v, dup, err
}

// c03Eval runs one input and returns the classification (for evidence) or a violation.
func c03Eval(b []byte, mode string) (class string, nontrivial bool, err error) {
	want, dup, rerr := c03Ref(b, mode)
	decode := c03Decoder(mode)
	nb := basicnode.Prototype.Any.NewBuilder()
	derr := evid.Guard("dagcbor.Decode", func() error { return decode(nb, c03Reader(b)) })
	if derr != nil && len(derr.Error()) >= 5 && derr.Error()[:5] == "PANIC" {
		return "", false, fmt.Errorf("decoder panicked on %s (%s): %v", clip(b), mode, derr)
	}
	// the same input into an assembler of the caller's that refuses nothing itself (not even a repeated key):
	// what the decoder promises to reject, it has to reject on its own
	rcd := nodes.NewRecorder()
	rcderr := evid.Guard("dagcbor.Decode", func() error { return decode(rcd.Assembler(), c03Reader(b)) })
	if rcderr != nil && strings.HasPrefix(rcderr.Error(), "PANIC") {
		return "", false, fmt.Errorf("decoder panicked on %s (%s) feeding a recording assembler: %v", clip(b), mode, rcderr)
	}
	if rerr != nil && rcderr == nil {
		return "", false, fmt.Errorf("decoder (%s) feeding an assembler that refuses nothing accepted %s as %s, but it is not a well-formed DAG-CBOR item (%v)", mode, clip(b), rcd.V.Short(200), rerr)
	}
	if rerr == nil && !dup {
		if rcderr != nil {
			return "", false, fmt.Errorf("decoder (%s) feeding a recording assembler rejected well-formed DAG-CBOR %s: %v", mode, clip(b), rcderr)
		}
		g, w := rcd.V, want
		if mode == "relaxed" {
			g, w = g.NormNaN(), w.NormNaN()
		}
		if !val.Equal(g, w, val.Ordered) {
			return "", false, fmt.Errorf("decoder (%s) told a recording assembler %s for %s, but the bytes denote %s", mode, g.Short(300), clip(b), w.Short(300))
		}
	}
	if rerr != nil {
		var rj refcbor.Reject
		errors.As(rerr, &rj)
		class = "reject:" + string(rj)
		nontrivial = rj != refcbor.RjEOF && rj != refcbor.RjBadInitial
		if derr == nil {
			got, _ := nodes.Read(nb.Build())
			return class, nontrivial, fmt.Errorf("decoder (%s) accepted %s as %s, but it is not a well-formed DAG-CBOR item (%s)", mode, clip(b), got.Short(200), rj)
		}
		return class, nontrivial, nil
	}
	class = "accept"
	if dup {
		// relaxed mode lets duplicate keys through to the assembler, which may refuse them
		return "accept-dup(relaxed)", true, nil
	}
	if derr != nil {
		return class, true, fmt.Errorf("decoder (%s) rejected well-formed DAG-CBOR %s (= %s): %v", mode, clip(b), want.Short(200), derr)
	}
	got, err := nodes.Full.Read(nb.Build())
	if err != nil {
		return class, true, fmt.Errorf("node decoded from %s is inconsistent: %w", clip(b), err)
	}
	if mode == "relaxed" {
		got, want = got.NormNaN(), want.NormNaN()
	}
	if !val.Equal(got, want, val.Ordered) {
		return class, true, fmt.Errorf("decoder (%s) read %s as %s, but the bytes denote %s", mode, clip(b), got.Short(300), want.Short(300))
	}
	return class, true, nil
}

func c03Check(c C03Case, rec *evid.Rec) error {
	class, nt, err := c03Eval(c.Bytes, c.Mode)
	if err != nil {
		return err
	}
	rec.Case(val.HashBytes(append([]byte(c.Mode), c.Bytes...)), nt, class, "mode:"+c.Mode)
	if nt && rec.WantSample() && len(c.Bytes) > 3 && len(c.Bytes) < 200 {
		rec.Sample(map[string]any{"bytes": fmt.Sprintf("%x", c.Bytes), "mode": c.Mode, "reference": class, "how": c.Note})
	}
	return nil
}

const c03Rule = "non-trivial = the reference decoder accepts the input, or rejects it for a reason other than plain truncation (eof) or an invalid first byte (badinitial); distinct by (mode, bytes)"

func drawByteMutations(t *rapid.T, b []byte, max int) ([]byte, string) {
	note := ""
	n := rapid.IntRange(0, max).Draw(t, "nmut")
	b = append([]byte{}, b...)
	for i := 0; i < n; i++ {
		switch rapid.IntRange(0, 4).Draw(t, "mut") {
		case 0:
			if len(b) > 0 {
				p := rapid.IntRange(0, len(b)-1).Draw(t, "pos")
				b[p] ^= 1 << uint(rapid.IntRange(0, 7).Draw(t, "bit"))
				note += fmt.Sprintf(" flip@%d", p)
			}
		case 1:
			if len(b) > 0 {
				p := rapid.IntRange(0, len(b)-1).Draw(t, "pos")
				b[p] = rapid.Byte().Draw(t, "byte")
				note += fmt.Sprintf(" subst@%d", p)
			}
		case 2:
			if len(b) > 0 {
				p := rapid.IntRange(0, len(b)-1).Draw(t, "cut")
				b = b[:p]
				note += fmt.Sprintf(" trunc@%d", p)
			}
		case 3:
			ext := rapid.SliceOfN(rapid.Byte(), 1, 4).Draw(t, "ext")
			b = append(b, ext...)
			note += " extend-random"
		default:
			p := val.Profile{MaxDepth: 1, MaxWidth: 2, Float: true, Null: true}
			x, _ := refcbor.Encode(val.DrawV(t, &p, "second"))
			b = append(b, x...)
			note += " extend-item"
		}
	}
	return b, note
}

var c03Mutants = evid.Part[C03Case]{
	Prop: "C03", Name: "mutants", Quick: 8000, Thorough: 800000,
	Rule: "canonical encoding of a drawn value, re-encoded with 0-3 structural departures (longer heads, indefinite lengths, tags, narrow floats, NaN/Inf, undefined, simple values, duplicate/swapped/non-string keys, CID damage, negative-int boundaries, stray break, wrong counts) and 0-2 byte-level mutations (bit flip, substitution, truncation, extension); " + c03Rule,
	Gen: func(t *rapid.T) C03Case {
		p := val.Profile{MaxDepth: 3, MaxWidth: 4, Uint: true, Float: true, Bytes: true, Links: true, Null: true}
		v := val.DrawV(t, &p, "v")
		kinds := refcbor.ItemKinds(v)
		nops := rapid.IntRange(0, 3).Draw(t, "nops")
		var ops []refcbor.Op
		note := ""
		for i := 0; i < nops; i++ {
			kind := rapid.SampledFrom(refcbor.OpKinds).Draw(t, "op")
			var where []int
			for at, k := range kinds {
				if refcbor.Applicable(kind, k) {
					where = append(where, at)
				}
			}
			if len(where) == 0 {
				continue
			}
			o := refcbor.Op{At: rapid.SampledFrom(where).Draw(t, "at"), Kind: kind, Arg: rapid.IntRange(0, 1000).Draw(t, "arg")}
			ops = append(ops, o)
			note += " " + o.Kind
		}
		b := refcbor.EncodeLoose(v, ops)
		b, n2 := drawByteMutations(t, b, 2)
		return C03Case{Bytes: b, Mode: rapid.SampledFrom([]string{"strict", "strict", "strict", "relaxed", "nolinks"}).Draw(t, "mode"), Note: note + n2}
	},
	Check: c03Check,
}.Reg()

func TestC03_Mutants(t *testing.T) { c03Mutants.Run(t) }

var c03Soup = evid.Part[C03Case]{
	Prop: "C03", Name: "soup", Quick: 4000, Thorough: 400000,
	Rule: "token soup: a random sequence of well-formed CBOR heads (any major type, any argument width, short payloads) and raw bytes; " + c03Rule,
	Gen: func(t *rapid.T) C03Case {
		var b []byte
		n := rapid.IntRange(1, 8).Draw(t, "n")
		for i := 0; i < n; i++ {
			major := byte(rapid.IntRange(0, 7).Draw(t, "major"))
			ai := byte(rapid.SampledFrom([]int{0, 1, 2, 3, 5, 20, 21, 22, 23, 24, 25, 26, 27, 28, 31}).Draw(t, "ai"))
			b = append(b, major<<5|ai)
			if ai >= 24 && ai <= 27 {
				w := 1 << (ai - 24)
				arg := rapid.SliceOfN(rapid.Byte(), w, w).Draw(t, "arg")
				if rapid.Bool().Draw(t, "smallarg") {
					for j := range arg {
						arg[j] = 0
					}
					arg[w-1] = byte(rapid.IntRange(0, 40).Draw(t, "lowarg"))
				}
				b = append(b, arg...)
			}
			if (major == 2 || major == 3) && rapid.Bool().Draw(t, "payload") {
				b = append(b, rapid.SliceOfN(rapid.Byte(), 0, 5).Draw(t, "pl")...)
			}
		}
		return C03Case{Bytes: b, Mode: rapid.SampledFrom(c03Modes).Draw(t, "mode"), Note: "soup"}
	},
	Check: c03Check,
}.Reg()

func TestC03_Soup(t *testing.T) { c03Soup.Run(t) }

// TestC03_Exhaustive enumerates every byte string of length 0..2 (quick) or 0..3 (thorough)
// in all three modes. Shards split the space by first byte.
func TestC03_Exhaustive(t *testing.T) {
	maxLen := 2
	if evid.Thorough() {
		maxLen = 3
	}
	rec := evid.New("C03", "exhaustive", fmt.Sprintf("every byte string of length 0..%d in every mode: strict, relaxed, no-links options and the public entry points dagcbor.Decode, cbor.Decode, registry 0x71 / 0x51 (complete enumeration, sharded by first byte); %s; distinct by construction (counted)", maxLen, c03Rule))
	rec.Exhaustive()
	defer rec.Flush()
	rec.Extra("max_len", maxLen)
	sh, ns := evid.Shard(), evid.NShards()
	run := func(b []byte) {
		for _, m := range c03Modes {
			class, nt, err := c03Eval(b, m)
			if err != nil {
				evid.SaveFailure("C03", "mutants", C03Case{Bytes: append([]byte{}, b...), Mode: m, Note: "exhaustive"}, err)
				t.Fatalf("C03.exhaustive: %v", err)
			}
			rec.CaseCounted(nt, class)
		}
	}
	if sh == 0 {
		run([]byte{})
	}
	buf := make([]byte, 0, 4)
	var rec2 func(prefix []byte)
	rec2 = func(prefix []byte) {
		run(prefix)
		if len(prefix) == maxLen {
			return
		}
		for x := 0; x < 256; x++ {
			rec2(append(prefix, byte(x)))
		}
	}
	for first := 0; first < 256; first++ {
		if first%ns != sh {
			continue
		}
		rec2(append(buf[:0], byte(first)))
	}
	rec.Sample(map[string]any{"bytes": "00 .. " + fmt.Sprintf("%x", bytes.Repeat([]byte{0xff}, maxLen)), "note": "complete enumeration; e.g. 1817 (non-minimal 23) must be rejected in strict mode and accepted in relaxed mode"})
}
