package checks

import (
	"bytes"
	"fmt"
	"testing"

	"github.com/ipld/go-ipld-prime/codec/dagcbor"
	"github.com/ipld/go-ipld-prime/datamodel"
	"github.com/ipld/go-ipld-prime/node/basicnode"
	"github.com/ipld/go-ipld-prime/node/bindnode"
	"github.com/ipld/go-ipld-prime/schema"
	"pgregory.net/rapid"

	"verif/evid"
	"verif/known"
	"verif/nodes"
	"verif/refcbor"
	"verif/tschema"
	"verif/typedx"
	"verif/val"
)

// C08: type-level and representation views of a typed node obey the schema's strategy.

type C08Case struct {
	S    tschema.Schema `json:"schema"`
	Type string         `json:"type"`
	TV   tschema.TV     `json:"value"`
	Prog []byte         `json:"prog"`
}

func c08Check(c C08Case, rec *evid.Rec) error {
	ts, err := c.S.Build()
	if err != nil {
		return fmt.Errorf("generated schema does not build: %w", err)
	}
	st := ts.TypeByName(c.Type)
	var proto schema.TypedPrototype
	if err := evid.Guard("bindnode.Prototype", func() error { proto = bindnode.Prototype(nil, st); return nil }); err != nil {
		return fmt.Errorf("bindnode.Prototype(nil, %s): %w", c.Type, err)
	}
	tview := tschema.TypeView(&c.S, c.Type, c.TV)
	rview, ok := tschema.ReprView(&c.S, c.Type, c.TV)
	if !ok {
		return nil
	}
	// 1. through the type-level builder
	n1, err := nodes.Build(tview, nodes.NewProg(c.Prog), proto)
	if err != nil {
		return fmt.Errorf("type-level builder of %s rejected a value of the type (%s): %w", c.Type, tview.Short(200), err)
	}
	if err := typedx.CheckViews(n1, tview, rview, "built at type level"); err != nil {
		return err
	}
	// 2. through the representation builder
	n2, err := nodes.Build(rview, nodes.NewProg(c.Prog), proto.Representation())
	if err != nil {
		return fmt.Errorf("representation builder of %s rejected the representation %s: %w", c.Type, rview.Short(200), err)
	}
	if err := typedx.CheckViews(n2, tview, rview, "built at representation level"); err != nil {
		return err
	}
	// 2b. generic Copy out of the typed node into the untyped implementation: the type-level content without
	// its absent fields, and the representation content
	for lvl, want := range []val.V{typedx.StripAbsent(tview), rview} {
		src := datamodel.Node(n1)
		if lvl == 1 {
			src, _ = typedx.ReprOf(n1)
		}
		for _, np := range []datamodel.NodePrototype{basicnode.Prototype.Any, nodes.ProtoFor(nodes.BasicKind, want.K)} {
			if want.Has(func(x val.V) bool { return x.K == val.Uint }) {
				continue
			}
			// (Copy assigns children as they are: a nested typed struct stays typed inside the copy, absent
			// fields and all. Only values whose absent fields are entries of the root are compared.)
			nestedAbsent := false
			for _, e := range tview.Ents {
				nestedAbsent = nestedAbsent || e.V.Has(func(x val.V) bool { return x.K == val.Absent }) && e.V.K != val.Absent
			}
			for _, it := range tview.Items {
				nestedAbsent = nestedAbsent || it.Has(func(x val.V) bool { return x.K == val.Absent })
			}
			if lvl == 0 && nestedAbsent {
				continue
			}
			nb := np.NewBuilder()
			if err := evid.Guard("datamodel.Copy", func() error { return datamodel.Copy(src, nb) }); err != nil {
				return fmt.Errorf("Copy of the level-%d view of %s (%s) into basicnode failed: %w", lvl, c.Type, want.Short(200), err)
			}
			if got, err := nodes.Read(nb.Build()); err != nil || !val.Equal(got, want, val.Ordered) {
				return fmt.Errorf("Copy of the level-%d view of %s into basicnode differs: %s (err %v)", lvl, c.Type, val.Diff(got, want), err)
			}
		}
	}
	// 3. encode the representation, decode it back through the representation builder
	ref, rerr := refcbor.Encode(rview)
	if rerr == nil {
		rn, _ := typedx.ReprOf(n1)
		enc, err := encDagCbor(rn)
		if err != nil {
			return fmt.Errorf("encoding the representation failed: %w", err)
		}
		if !bytes.Equal(enc, ref) {
			return fmt.Errorf("encoded representation differs from the canonical encoding of the representation view: got %s want %s", clip(enc), clip(ref))
		}
		nb := proto.Representation().NewBuilder()
		if err := evid.Guard("decode", func() error { return dagcbor.Decode(nb, bytes.NewReader(enc)) }); err != nil {
			return fmt.Errorf("decoding the encoded representation %s through the representation builder failed: %w", clip(enc), err)
		}
		sorted := tschema.SortMaps(&c.S, c.Type, c.TV)
		stv := tschema.TypeView(&c.S, c.Type, sorted)
		srv, _ := tschema.ReprView(&c.S, c.Type, sorted)
		n3 := nb.Build()
		if err := typedx.CheckViews(n3, stv, srv, "decoded from its encoding"); err != nil {
			return err
		}
		rn3, _ := typedx.ReprOf(n3)
		enc3, err := encDagCbor(rn3)
		if err != nil || !bytes.Equal(enc3, enc) {
			return fmt.Errorf("re-encoding the decoded value gives other bytes: %s vs %s (err %v)", clip(enc3), clip(enc), err)
		}
	}
	ex := map[string]bool{}
	c.TV.Exercises(&c.S, c.Type, ex)
	strategies := 0
	var cls []string
	for k := range ex {
		cls = append(cls, "uses:"+k)
		if len(k) > 6 && (k[:6] == "struct" || k[:5] == "union" || k[:4] == "enum") {
			strategies++
		}
	}
	nt := (strategies >= 2 || ex["null"] || ex["absent"]) && (ex["null"] || ex["absent"] || ex["non-first-member"] || ex["rename"] || strategies >= 2)
	b, _ := jsonMarshal(c)
	rec.Case(val.HashBytes(b), nt, cls...)
	if nt && rec.WantSample() && len(b) < 3000 {
		rec.Sample(map[string]any{"schema": c.S, "type": c.Type, "type_view": tview.String(), "repr_view": rview.String()})
	}
	return nil
}

func genSchemaValue(t *rapid.T, o tschema.GenOpts) (tschema.Schema, string, tschema.TV) {
	o.NoAnyInUnion = known.Active("C08-bindnode-any-union-member")
	s := tschema.Draw(t, o)
	typ := s.Types[len(s.Types)-1].Name
	if rapid.IntRange(0, 3).Draw(t, "othertype") == 0 {
		typ = s.Types[rapid.IntRange(0, len(s.Types)-1).Draw(t, "whichtype")].Name
	}
	return s, typ, tschema.DrawTV(t, &s, typ, "tv")
}

var c08Part = evid.Part[C08Case]{
	Prop: "C08", Name: "views", Quick: 3000, Thorough: 1500000,
	Rule: "acyclic schema (≤6 named types: structs map/tuple/stringjoin/listpairs with optional/nullable/renames, unions keyed/kinded/stringprefix, enums string/int, typed maps and lists with nullable values, links, Any) × typed value × builder program, on bindnode with inferred Go types; non-trivial = the value exercises ≥2 representation strategies or a maybe (absent/null) field, a non-first union member or a renamed field; distinct by (schema, type, value, program)",
	Gen: func(t *rapid.T) C08Case {
		s, typ, tv := genSchemaValue(t, tschema.GenOpts{MaxTypes: 6})
		return C08Case{S: s, Type: typ, TV: tv, Prog: rapid.SliceOfN(rapid.Byte(), 0, 12).Draw(t, "prog")}
	},
	Check: c08Check,
}.Reg()

func TestC08_Views(t *testing.T) { c08Part.Run(t) }
