package checks

import (
	"bytes"
	"context"
	"crypto/sha256"
	"encoding/base32"
	"encoding/base64"
	"encoding/hex"
	"errors"
	"fmt"
	"io"
	"os"
	"path/filepath"
	"strings"
	"syscall"
	"testing"

	"github.com/ipld/go-ipld-prime/linking"
	cidlink "github.com/ipld/go-ipld-prime/linking/cid"
	"github.com/ipld/go-ipld-prime/storage"
	"github.com/ipld/go-ipld-prime/storage/fsstore"
	"github.com/ipld/go-ipld-prime/storage/memstore"
	"github.com/ipld/go-ipld-prime/storage/sharding"
	"pgregory.net/rapid"

	"verif/evid"
	"verif/nodes"
	"verif/val"
)

// C17: block storage is a faithful key-value map for arbitrary binary keys.

type C17Op struct {
	Kind  string `json:"kind"` // put | putstream | putvec | has | get | getstream | peek
	Key   int    `json:"key"`
	Chunk []byte `json:"chunk,omitempty"`
	Via   bool   `json:"via_pkg_funcs"` // use the feature-detecting package functions instead of methods
}

type C17Case struct {
	Store    string   `json:"store"` // memstore | cidmemory | fsstore
	Escaping string   `json:"escaping,omitempty"`
	Sharding string   `json:"sharding,omitempty"`
	Keys     []string `json:"keys"` // val.Txt
	Contents [][]byte `json:"contents"`
	Ops      []C17Op  `json:"ops"`
}

var hostileKeys = []string{"\x00", "a\x00b", "/", "a/b", "..", "../x", "../../sentinel.txt", "../../../outer-sentinel.txt", "/etc/passwd", ".temp", ".temp/x",
	".", "./a", "a/../b", "\xff\xfe", "\x80", "ab", "abc", "abcd", "xabc", "yabc", "AB", "ab ", " ", "\n", "con", "a\\b", "~", "*", strings.Repeat("k", 300), strings.Repeat("\xff", 160)}

func fsEscaping(name string) func(string) string {
	switch name {
	case "hex":
		return func(s string) string { return hex.EncodeToString([]byte(s)) }
	case "base64url":
		return func(s string) string { return base64.RawURLEncoding.EncodeToString([]byte(s)) }
	}
	return nil
}

func fsSharding(name string) func(string, *[]string) {
	switch name {
	case "r122":
		return sharding.Shard_r122
	case "r133":
		return sharding.Shard_r133
	case "none":
		return func(key string, shards *[]string) { *shards = append(*shards, key) }
	case "deep":
		// a caller's own function: three directory levels from the last three characters
		return func(key string, shards *[]string) {
			k := key
			for len(k) < 3 {
				k = "_" + k
			}
			*shards = append(*shards, k[len(k)-1:], k[len(k)-2:len(k)-1], k[len(k)-3:len(k)-2], key)
		}
	}
	return sharding.Shard_r12
}

// c17ShardPartner finds a two-byte key whose escaped form has, right before its last character, the two or
// three characters that are the whole escaped form of the (very short) key base; "" if there is none.
func c17ShardPartner(escName, base string) string {
	esc := fsEscaping(escName)
	if esc == nil {
		esc = fsEscaping("hex")
	}
	ea := esc(base)
	if len(ea) < 2 || len(ea) > 3 {
		return ""
	}
	for b0 := 0; b0 < 256; b0++ {
		for b1 := 0; b1 < 256; b1++ {
			k := string([]byte{byte(b0), byte(b1)})
			e := esc(k)
			if l := len(e); l > len(ea) && e[l-1-len(ea):l-1] == ea {
				return k
			}
		}
	}
	return ""
}

// treeSnapshot hashes every file and lists every directory under root except the subtree skip.
func treeSnapshot(root, skip string) (map[string]string, error) {
	out := map[string]string{}
	err := filepath.Walk(root, func(p string, fi os.FileInfo, err error) error {
		if err != nil {
			return err
		}
		if p == skip {
			out[p] = "basedir"
			return filepath.SkipDir
		}
		if fi.IsDir() {
			out[p] = "dir"
			return nil
		}
		b, err := os.ReadFile(p)
		if err != nil {
			return err
		}
		h := sha256.Sum256(b)
		out[p] = hex.EncodeToString(h[:8])
		return nil
	})
	return out, err
}

func sameSnapshot(a, b map[string]string) string {
	for k, v := range a {
		if b[k] != v {
			return fmt.Sprintf("%s: %q -> %q", k, v, b[k])
		}
	}
	for k, v := range b {
		if _, ok := a[k]; !ok {
			return fmt.Sprintf("%s appeared (%s)", k, v)
		}
	}
	return ""
}

type c17Store struct {
	name string
	rw   interface {
		storage.ReadableStorage
		storage.WritableStorage
	}
	cmem *cidlink.Memory
}

func c17Check(c C17Case, rec *evid.Rec) error {
	ctx := context.Background()
	keys := make([]string, len(c.Keys))
	for i, k := range c.Keys {
		keys[i], _ = val.UnTxt(k)
	}
	var st c17Store
	st.name = c.Store
	var base, scratch string
	var outside map[string]string
	var escaped []string
	switch c.Store {
	case "memstore":
		st.rw = &memstore.Store{}
	case "cidmemory":
		st.cmem = &cidlink.Memory{}
	case "fsstore":
		dir, err := os.MkdirTemp("", "c17-")
		if err != nil {
			return nil // infrastructure
		}
		scratch = dir
		defer os.RemoveAll(scratch)
		base = filepath.Join(scratch, "outer", "mid", "base")
		if err := os.MkdirAll(base, 0o777); err != nil {
			return nil
		}
		_ = os.WriteFile(filepath.Join(scratch, "outer-sentinel.txt"), []byte("outer"), 0o666)
		_ = os.WriteFile(filepath.Join(scratch, "outer", "sentinel.txt"), []byte("sentinel"), 0o666)
		_ = os.WriteFile(filepath.Join(scratch, "outer", "mid", "x"), []byte("x"), 0o666)
		fs := &fsstore.Store{}
		if c.Escaping == "" && c.Sharding == "" {
			err = fs.InitDefaults(base)
		} else {
			esc := fsEscaping(c.Escaping)
			if esc == nil {
				esc = fsEscaping("hex")
			}
			err = fs.Init(base, esc, fsSharding(c.Sharding))
		}
		if err != nil {
			return fmt.Errorf("fsstore init failed: %w", err)
		}
		st.rw = fs
		outside, err = treeSnapshot(scratch, base)
		if err != nil {
			return nil
		}
		fsstore.SetVerifHook(func(point string, paths ...string) error {
			for _, p := range paths {
				cp := filepath.Clean(p)
				if cp != base && !strings.HasPrefix(cp, base+string(filepath.Separator)) {
					escaped = append(escaped, point+" "+p)
				}
			}
			return nil
		})
		defer fsstore.SetVerifHook(nil)
	default:
		return fmt.Errorf("unknown store %q", c.Store)
	}
	stored := map[int]bool{}
	hostile, readAfterPut := false, false
	distinct := map[int]bool{}

	// otherStored: a stored key other than i if there is one (the lowest), else i itself if stored, else -1
	otherStored := func(i int) int {
		for j := range keys {
			if j != i && stored[j] {
				return j
			}
		}
		if stored[i] {
			return i
		}
		return -1
	}
	read := func(op C17Op) (found bool, content []byte, err error) {
		k := keys[op.Key]
		if st.cmem != nil {
			l, lerr := nodes.MkLink(k)
			if lerr != nil {
				return false, nil, lerr
			}
			r, rerr := st.cmem.OpenRead(linking.LinkContext{}, l)
			if rerr != nil {
				return false, nil, nil
			}
			b, rerr := io.ReadAll(r)
			return true, b, rerr
		}
		switch op.Kind {
		case "has":
			var ok bool
			if op.Via {
				ok, err = storage.Has(ctx, st.rw, k)
			} else {
				ok, err = st.rw.Has(ctx, k)
			}
			if err != nil && !ok && !stored[op.Key] {
				// a key the store cannot represent (e.g. a name beyond NAME_MAX) may be reported
				// through an error instead of "false": it is still not reported as present
				rec.Class("has-error-for-absent-key")
				return false, nil, nil
			}
			return ok, nil, err
		case "get":
			var b []byte
			if op.Via {
				b, err = storage.Get(ctx, st.rw, k)
			} else {
				b, err = st.rw.Get(ctx, k)
			}
			if err != nil {
				return false, nil, nil
			}
			return true, b, nil
		case "getstream":
			r, gerr := storage.GetStream(ctx, st.rw, k)
			if gerr != nil {
				return false, nil, nil
			}
			defer r.Close()
			var buf bytes.Buffer
			// read in drawn chunk sizes
			tmp := make([]byte, 1+len(op.Chunk)%7)
			if len(c.Contents[op.Key%len(c.Contents)]) > 1<<16 {
				tmp = make([]byte, (1+len(op.Chunk)%7)<<14)
			}
			first := true
			for {
				n, rerr := r.Read(tmp)
				buf.Write(tmp[:n])
				if rerr == io.EOF {
					break
				}
				if rerr != nil {
					return true, nil, rerr
				}
				if first {
					// while this stream is open and partly read, another stored key (or the same one) is streamed from
					// start to end: two open streams are two streams
					first = false
					if j := otherStored(op.Key); j >= 0 {
						r2, gerr := storage.GetStream(ctx, st.rw, keys[j])
						if gerr != nil {
							return true, nil, fmt.Errorf("a second stream (key %s) opened while one is being read: %v", val.Txt(keys[j]), gerr)
						}
						b2, rerr := io.ReadAll(r2)
						r2.Close()
						if rerr != nil || !bytes.Equal(b2, c.Contents[j]) {
							return true, nil, fmt.Errorf("a second stream (key %s) opened while one is being read returned %d bytes (err %v), want the %d stored", val.Txt(keys[j]), len(b2), rerr, len(c.Contents[j]))
						}
					}
				}
			}
			return true, buf.Bytes(), nil
		default: // peek
			b, closer, perr := storage.Peek(ctx, st.rw, k)
			if perr != nil {
				return false, nil, nil
			}
			// what was peeked stays valid until it is closed: another key is peeked first
			if j := otherStored(op.Key); j >= 0 {
				b2, closer2, perr2 := storage.Peek(ctx, st.rw, keys[j])
				if perr2 != nil || !bytes.Equal(b2, c.Contents[j]) {
					return true, nil, fmt.Errorf("a second peek (key %s) while one is held returned %d bytes (err %v), want the %d stored", val.Txt(keys[j]), len(b2), perr2, len(c.Contents[j]))
				}
				if closer2 != nil {
					defer closer2.Close()
				}
			}
			cp := append([]byte{}, b...)
			if closer != nil {
				_ = closer.Close()
			}
			return true, cp, nil
		}
	}

	for i, op := range c.Ops {
		if len(keys) == 0 {
			break
		}
		op.Key %= len(keys)
		k := keys[op.Key]
		content := c.Contents[op.Key%len(c.Contents)]
		where := fmt.Sprintf("op %d (%s key %s on %s/%s/%s)", i, op.Kind, val.Txt(k), c.Store, c.Escaping, c.Sharding)
		distinct[op.Key] = true
		for _, h := range hostileKeys {
			if k == h {
				hostile = true
			}
		}
		err := evid.Guard(where, func() error {
			switch op.Kind {
			case "putoverlap":
				// two streaming puts that overlap in time: open A, open B, write both in alternation, commit A, commit B
				kb := (op.Key + 1) % len(keys)
				if kb == op.Key {
					return nil
				}
				type stream struct {
					w      io.Writer
					commit func() error
					rest   []byte
				}
				var ss [2]stream
				_, e1 := nodes.MkLink(keys[op.Key])
				_, e2 := nodes.MkLink(keys[kb])
				bothCids := e1 == nil && e2 == nil
				var overlapLsys linking.LinkSystem
				if st.cmem == nil {
					overlapLsys = cidlink.DefaultLinkSystem()
					overlapLsys.SetWriteStorage(st.rw)
				}
				for j, ki := range []int{op.Key, kb} {
					ki := ki
					data := append([]byte{}, c.Contents[ki%len(c.Contents)]...)
					if st.cmem != nil {
						l, lerr := nodes.MkLink(keys[ki])
						if lerr != nil {
							return lerr
						}
						w, commit, oerr := st.cmem.OpenWrite(linking.LinkContext{})
						if oerr != nil {
							return oerr
						}
						ss[j] = stream{w: w, commit: func() error { return commit(l) }, rest: data}
					} else if l, lerr := nodes.MkLink(keys[ki]); lerr == nil && op.Via && bothCids {
						// through a link system set up with SetWriteStorage: two block writes open at the same time
						w, commit, oerr := overlapLsys.StorageWriteOpener(linking.LinkContext{Ctx: ctx})
						if oerr != nil {
							return fmt.Errorf("StorageWriteOpener: %v", oerr)
						}
						ss[j] = stream{w: w, commit: func() error { return commit(l) }, rest: data}
					} else {
						w, commit, oerr := storage.PutStream(ctx, st.rw)
						if oerr != nil {
							return fmt.Errorf("PutStream: %v", oerr)
						}
						ss[j] = stream{w: w, commit: func() error { return commit(keys[ki]) }, rest: data}
					}
				}
				for len(ss[0].rest) > 0 || len(ss[1].rest) > 0 {
					for j := range ss {
						n := 1 + len(op.Chunk)%5
						if len(ss[j].rest) > 1<<16 {
							n <<= 15
						}
						if n > len(ss[j].rest) {
							n = len(ss[j].rest)
						}
						if n > 0 {
							if _, werr := ss[j].w.Write(ss[j].rest[:n]); werr != nil {
								return fmt.Errorf("write to stream %d: %v", j, werr)
							}
							ss[j].rest = ss[j].rest[n:]
						}
					}
				}
				for j, ki := range []int{op.Key, kb} {
					if cerr := ss[j].commit(); cerr == nil {
						stored[ki] = true
						distinct[ki] = true
					} else if c.Store != "fsstore" {
						return fmt.Errorf("commit of overlapping stream %d failed: %v", j, cerr)
					} else {
						var errno syscall.Errno
						if !errors.As(cerr, &errno) || (errno != syscall.ENAMETOOLONG && errno != syscall.EINVAL) {
							return fmt.Errorf("commit of overlapping stream %d (key of %d bytes) failed: %v", j, len(keys[ki]), cerr)
						}
						rec.Class("fs-put-refused:" + errno.Error())
					}
				}
				return nil
			case "put", "putstream", "putvec":
				buf := append([]byte{}, content...)
				var perr error
				switch {
				case st.cmem != nil:
					l, lerr := nodes.MkLink(k)
					if lerr != nil {
						return lerr
					}
					w, commit, oerr := st.cmem.OpenWrite(linking.LinkContext{})
					if oerr != nil {
						return oerr
					}
					_, _ = w.Write(buf)
					perr = commit(l)
				case op.Kind == "put":
					if op.Via {
						perr = storage.Put(ctx, st.rw, k, buf)
					} else {
						perr = st.rw.Put(ctx, k, buf)
					}
				case op.Kind == "putstream":
					w, commit, oerr := storage.PutStream(ctx, st.rw)
					if oerr != nil {
						perr = oerr
						break
					}
					rest := buf
					ci := 0
					for len(rest) > 0 {
						n := len(rest)
						if len(op.Chunk) > 0 {
							n = 1 + int(op.Chunk[ci%len(op.Chunk)])%16
							if len(buf) > 1<<16 {
								n <<= 14
							}
							ci++
							if n > len(rest) {
								n = len(rest)
							}
						}
						if _, werr := w.Write(rest[:n]); werr != nil {
							perr = werr
							break
						}
						rest = rest[n:]
					}
					if perr == nil {
						perr = commit(k)
					} else {
						_ = commit("")
					}
				default:
					var vec [][]byte
					rest := buf
					for len(rest) > 0 {
						n := 1 + len(rest)/2
						vec = append(vec, rest[:n])
						rest = rest[n:]
					}
					perr = storage.PutVec(ctx, st.rw, k, vec)
				}
				// the caller's buffer is overwritten after the put
				for j := range buf {
					buf[j] ^= 0xa5
				}
				if perr == nil {
					stored[op.Key] = true
				} else if c.Store != "fsstore" {
					return fmt.Errorf("put failed: %v", perr)
				} else {
					// the filesystem may refuse a key for what the key is (a name longer than it allows); nothing else
					// excuses a failed put
					var errno syscall.Errno
					if !errors.As(perr, &errno) || (errno != syscall.ENAMETOOLONG && errno != syscall.EINVAL) {
						return fmt.Errorf("put of key %s (%d bytes) failed: %v", val.Txt(k), len(k), perr)
					}
					rec.Class("fs-put-refused:" + errno.Error())
				}
				return nil
			default:
				found, got, rerr := read(op)
				if rerr != nil {
					return fmt.Errorf("read failed: %v", rerr)
				}
				if found != stored[op.Key] {
					return fmt.Errorf("key reported present=%v, but the model says stored=%v", found, stored[op.Key])
				}
				if found && op.Kind != "has" {
					readAfterPut = true
					if !bytes.Equal(got, content) {
						return fmt.Errorf("read %d bytes %s, want the %d bytes stored %s", len(got), clip(got), len(content), clip(content))
					}
				}
				return nil
			}
		})
		if err != nil {
			return fmt.Errorf("%s: %w", where, err)
		}
		if c.Store == "fsstore" {
			now, serr := treeSnapshot(scratch, base)
			if serr == nil {
				if d := sameSnapshot(outside, now); d != "" {
					return fmt.Errorf("%s: the filesystem outside the base directory changed: %s", where, d)
				}
			}
			if len(escaped) > 0 {
				return fmt.Errorf("%s: the store handed a path outside its base directory to the OS: %s", where, escaped[0])
			}
		}
	}
	// final scan: every key of the table agrees with the model, through every read form
	for ki := range keys {
		for _, kind := range []string{"has", "get", "getstream", "peek"} {
			op := C17Op{Kind: kind, Key: ki, Via: ki%2 == 0, Chunk: []byte{3}}
			var found bool
			var got []byte
			err := evid.Guard("final scan", func() error {
				var e error
				found, got, e = read(op)
				return e
			})
			if err != nil {
				return fmt.Errorf("final scan %s of key %s: %v", kind, c.Keys[ki], err)
			}
			if found != stored[ki] {
				return fmt.Errorf("final scan: %s of key %s (%s/%s/%s) reports present=%v, model says %v (aliasing with another key?)", kind, c.Keys[ki], c.Store, c.Escaping, c.Sharding, found, stored[ki])
			}
			if found && kind != "has" && !bytes.Equal(got, c.Contents[ki%len(c.Contents)]) {
				return fmt.Errorf("final scan: %s of key %s returns %s, stored was %s", kind, c.Keys[ki], clip(got), clip(c.Contents[ki%len(c.Contents)]))
			}
			if st.cmem != nil {
				break
			}
		}
	}
	b, _ := jsonMarshal(c)
	nt := len(distinct) >= 2 && readAfterPut && (hostile || c.Store != "fsstore")
	rec.Case(val.HashBytes(b), nt, "store:"+c.Store+"/"+c.Escaping+"/"+c.Sharding, fmt.Sprintf("hostile-key:%v", hostile))
	if nt && hostile && rec.WantSample() && len(b) < 3000 {
		rec.Sample(c)
	}
	return nil
}

var c17Part = evid.Part[C17Case]{
	Prop: "C17", Name: "kvmap", Quick: 1200, Thorough: 60000,
	Rule: "history of ≤40 put/put-stream/put-vec/re-put/two overlapping streams/has/get/get-stream/peek operations (methods and feature-detecting package functions) over a table of keys that each have one content, on memstore, cidlink.Memory, fsstore with defaults and with custom escaping (hex, base64url) × sharding (r12, r122, r133, none, a three-level function of the caller's); keys = CID binaries and hostile byte strings (NUL, '/', '..', '../../sentinel.txt', '.temp', 300-byte, high bytes, shared shard suffixes, prefixes, and near neighbours of other keys: the base32 / hex / base64url form of another key, one more / one changed trailing byte, equal for the first 31..129 bytes and differing after); model map + full scan at the end; for fsstore the tree outside the base directory is compared after every operation and every path handed to the OS (verif hook) must lie under the base; non-trivial = ≥2 distinct keys, a read after a put, and for fsstore a hostile key; distinct by the whole history",
	Gen: func(t *rapid.T) C17Case {
		c := C17Case{Store: rapid.SampledFrom([]string{"memstore", "cidmemory", "fsstore", "fsstore", "fsstore"}).Draw(t, "store")}
		if c.Store == "fsstore" && rapid.Bool().Draw(t, "custom") {
			c.Escaping = rapid.SampledFrom([]string{"hex", "base64url"}).Draw(t, "escaping")
			c.Sharding = rapid.SampledFrom([]string{"r12", "r122", "r133", "none", "deep"}).Draw(t, "sharding")
		}
		nk := rapid.IntRange(1, 8).Draw(t, "nkeys")
		seen := map[string]bool{}
		type c17mh struct {
			code   uint64
			digest []byte
		}
		var cidmh []c17mh
		for len(c.Keys) < nk {
			var k string
			if c.Store == "cidmemory" {
				// the CID-keyed store files blocks under the link's multihash (hash function code, length, digest):
				// links whose multihashes differ are different keys, also when they carry the same digest bytes under
				// another hash function code, when one is the identity multihash of the other's digest or of its
				// whole multihash, or when the digests differ by one trailing byte. (Codec and CID version stay
				// fixed: links that share the multihash share the block, by design.)
				digest := rapid.SliceOfN(rapid.Byte(), 32, 32).Draw(t, "digest")
				code := uint64(0x12)
				if len(cidmh) > 0 && rapid.IntRange(0, 1).Draw(t, "derived") == 0 {
					b := cidmh[rapid.IntRange(0, len(cidmh)-1).Draw(t, "base")]
					switch rapid.IntRange(0, 4).Draw(t, "derive") {
					case 0:
						code, digest = rapid.SampledFrom([]uint64{0x12, 0x56, 0x16, 0x1b, 0xb220, 0x00}).Draw(t, "code"), b.digest
					case 1:
						code, digest = 0x00, b.digest
					case 2:
						code, digest = 0x00, []byte(val.MakeCidV1(0x55, b.code, b.digest)[2:]) // identity of the other's multihash
					case 3:
						code, digest = b.code, append(append([]byte{}, b.digest...), 0)
					default:
						code, digest = b.code, b.digest[:len(b.digest)-1]
					}
				}
				if len(digest) == 0 {
					continue
				}
				k = val.MakeCidV1(0x55, code, digest)
				if _, err := nodes.MkLink(k); err != nil {
					continue
				}
				if !seen[k] {
					cidmh = append(cidmh, c17mh{code, digest})
				}
			} else if len(c.Keys) > 0 && rapid.IntRange(0, 3).Draw(t, "derived") == 0 {
				// a near neighbour of an existing key: keys that differ only late (after a long shared
				// prefix, around power-of-two lengths) or by one trailing byte must not alias
				base, _ := val.UnTxt(c.Keys[rapid.IntRange(0, len(c.Keys)-1).Draw(t, "base")])
				switch rapid.IntRange(0, 4).Draw(t, "derive") {
				case 4:
					// a key whose last shard directory is named like the file of a very short key (sharding functions
					// pad short keys; a padded path must not run into another key's directories)
					k = c17ShardPartner(c.Escaping, base)
					if k == "" {
						k = base + "a"
					}
				case 3:
					// what an escaping function makes of the other key: a key and its own escaped form are two keys
					switch rapid.IntRange(0, 2).Draw(t, "escform") {
					case 0:
						k = strings.TrimRight(base32.StdEncoding.EncodeToString([]byte(base)), "=")
					case 1:
						k = hex.EncodeToString([]byte(base))
					default:
						k = base64.RawURLEncoding.EncodeToString([]byte(base))
					}
				case 0:
					k = base + string(rapid.SampledFrom([]byte{'a', 0, '/', 0xff, '='}).Draw(t, "extra"))
				case 1:
					b := []byte(base)
					b[len(b)-1] ^= byte(rapid.SampledFrom([]int{1, 0x20, 0x80, 0xff}).Draw(t, "flip"))
					k = string(b)
				default:
					l := rapid.SampledFrom([]int{31, 32, 33, 63, 64, 65, 100, 127, 128, 129, 158, 159, 160, 200}).Draw(t, "padlen")
					for len(base) < l {
						base += "p"
					}
					k = base[:l] + rapid.SampledFrom([]string{"", "a", "b", "ab", "ba"}).Draw(t, "tail")
				}
			} else {
				switch rapid.IntRange(0, 3).Draw(t, "keykind") {
				case 0:
					k = val.DrawCid(t, "cidkey")
				case 1, 2:
					k = rapid.SampledFrom(hostileKeys).Draw(t, "hostile")
				default:
					k = string(rapid.SliceOfN(rapid.Byte(), 1, 12).Draw(t, "rawkey"))
				}
			}
			if k == "" || seen[k] {
				continue
			}
			seen[k] = true
			c.Keys = append(c.Keys, val.Txt(k))
			n := rapid.SampledFrom([]int{0, 1, 5, 40, 300, 4096}).Draw(t, "clen")
			if rapid.IntRange(0, 39).Draw(t, "big") == 0 {
				// block sizes around the MiB and beyond 4 MiB (what a store may write, or read, in pieces)
				n = rapid.SampledFrom([]int{1 << 20, 2 << 20, 1<<20 + 1, 1<<20 - 1, 4<<20 + 1, 5 << 20}).Draw(t, "bigclen")
			}
			content := make([]byte, n)
			fill := rapid.Byte().Draw(t, "fill")
			for i := range content {
				content[i] = fill + byte(i*7)
			}
			c.Contents = append(c.Contents, content)
		}
		nops := rapid.IntRange(1, 40).Draw(t, "nops")
		for i := 0; i < nops; i++ {
			c.Ops = append(c.Ops, C17Op{
				Kind:  rapid.SampledFrom([]string{"put", "putstream", "putvec", "putoverlap", "has", "get", "getstream", "peek", "get"}).Draw(t, "kind"),
				Key:   rapid.IntRange(0, nk-1).Draw(t, "key"),
				Chunk: rapid.SliceOfN(rapid.Byte(), 0, 4).Draw(t, "chunk"),
				Via:   rapid.Bool().Draw(t, "via"),
			})
		}
		return c
	},
	Check: c17Check,
}.Reg()

func TestC17_KVMap(t *testing.T) { c17Part.Run(t) }
