package checks

import (
	"bytes"
	"encoding/json"
	"fmt"
	"os"
	"testing"

	"github.com/ipfs/go-cid"
	"github.com/ipld/go-ipld-prime/codec/dagcbor"
	"github.com/ipld/go-ipld-prime/datamodel"

	"verif/evid"
)

// TestReplay re-runs one saved failing case (VERIF_REPLAY=<file>) through its check,
// bypassing rapid. Used by `./check <id> --replay <file>` and for known-finding witnesses.
func TestReplay(t *testing.T) {
	f := os.Getenv("VERIF_REPLAY")
	if f == "" {
		t.Skip("VERIF_REPLAY not set")
	}
	infra, fail := evid.Replay(f)
	if infra != nil {
		fmt.Printf("REPLAY-INFRA %v\n", infra)
		t.Fatalf("infrastructure: %v", infra)
	}
	if fail != nil {
		fmt.Printf("REPLAY-FAIL %v\n", fail)
		t.Fatalf("case fails: %v", fail)
	}
	fmt.Printf("REPLAY-PASS\n")
}

func cidOK(b []byte) bool {
	_, err := cid.Cast(b)
	return err == nil
}

func encDagCbor(n datamodel.Node) ([]byte, error) {
	var buf bytes.Buffer
	err := evid.Guard("dagcbor.Encode", func() error { return dagcbor.Encode(n, &buf) })
	return buf.Bytes(), err
}

func clip(b []byte) string {
	if len(b) > 120 {
		return fmt.Sprintf("%x…(%d bytes)", b[:120], len(b))
	}
	return fmt.Sprintf("%x", b)
}

// firstDiff is the first offset at which a and b differ.
func firstDiff(a, b []byte) int {
	n := len(a)
	if len(b) < n {
		n = len(b)
	}
	for i := 0; i < n; i++ {
		if a[i] != b[i] {
			return i
		}
	}
	return n
}

func jsonMarshal(v any) ([]byte, error) { return json.Marshal(v) }
