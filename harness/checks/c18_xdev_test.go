package checks

import (
	"bytes"
	"context"
	"fmt"
	"io"
	"os"
	"path/filepath"
	"sync"
	"syscall"
	"testing"

	"pgregory.net/rapid"

	"verif/evid"
	"verif/val"
)

// C18 where the last step of a put cannot be a plain rename: the staging directory, or the shard directory
// of the key, is a symbolic link onto ANOTHER filesystem (Init accepts that; people spread shards over
// disks this way). Whatever the store then does — fail the put, or carry the content over some other way —
// a key must stay absent or complete for every reader, including one that opened the block before a second
// put under the same key and reads on afterwards.

type C18XdevCase struct {
	Sharding string `json:"sharding"`
	Link     string `json:"link"` // "staging" | "shard"
	Seed     byte   `json:"seed"`
	SizeA    int    `json:"size_a"`
	SizeB    int    `json:"size_b"`
	SizeC    int    `json:"size_c"`
	Stream   bool   `json:"stream"`
	Key      string `json:"key"` // val.Txt
}

func devOf(p string) (uint64, bool) {
	var st syscall.Stat_t
	if err := syscall.Stat(p, &st); err != nil {
		return 0, false
	}
	return uint64(st.Dev), true
}

// otherFilesystem returns a fresh directory on a filesystem other than the one holding base, or "".
func otherFilesystem(base string) string {
	bd, ok := devOf(base)
	if !ok {
		return ""
	}
	for _, cand := range []string{os.Getenv("VERIF_OTHER_FS"), "/dev/shm", "/run/shm", "/run/lock", "/run"} {
		if cand == "" {
			continue
		}
		if d, ok := devOf(cand); !ok || d == bd {
			continue
		}
		dir, err := os.MkdirTemp(cand, "c18x-")
		if err != nil {
			continue
		}
		return dir
	}
	return ""
}

func c18XdevCheck(c C18XdevCase, rec *evid.Rec) error {
	base, err := os.MkdirTemp("", "c18x-")
	if err != nil {
		return nil
	}
	defer os.RemoveAll(base)
	other := otherFilesystem(base)
	if other == "" {
		rec.Excluded("no-second-filesystem-available")
		return nil
	}
	defer os.RemoveAll(other)
	ctx := context.Background()
	key, _ := val.UnTxt(c.Key)
	A, B, C := blob(c.Seed, c.SizeA), blob(c.Seed+1, c.SizeB), blob(c.Seed+2, c.SizeC)
	esc := "hex"
	if c.Sharding == "" {
		esc = "" // the default store
	}
	fs, err := openFS(base, esc, c.Sharding)
	if err != nil {
		return err
	}
	if err := fs.Put(ctx, key, A); err != nil {
		return fmt.Errorf("plain put on one filesystem fails: %v", err)
	}
	link := c.Link
	// where did the block land?
	var blockPath string
	_ = filepath.Walk(base, func(p string, fi os.FileInfo, err error) error {
		if err == nil && !fi.IsDir() && filepath.Base(filepath.Dir(p)) != ".temp" {
			blockPath = p
		}
		return nil
	})
	if blockPath == "" {
		return fmt.Errorf("the block that was put is not found under the base directory")
	}
	if link == "shard" && filepath.Dir(blockPath) == base {
		link = "staging" // no shard directory with this sharding function
	}
	switch link {
	case "staging":
		if err := os.RemoveAll(filepath.Join(base, ".temp")); err != nil {
			return nil
		}
		if err := os.Symlink(other, filepath.Join(base, ".temp")); err != nil {
			return nil
		}
	case "shard":
		// the shard directory moves to the other filesystem, with its content, and a link takes its place
		sd := filepath.Dir(blockPath)
		b, err := os.ReadFile(blockPath)
		if err != nil {
			return nil
		}
		if err := os.WriteFile(filepath.Join(other, filepath.Base(blockPath)), b, 0o666); err != nil {
			return nil
		}
		if err := os.RemoveAll(sd); err != nil {
			return nil
		}
		if err := os.Symlink(other, sd); err != nil {
			return nil
		}
	}
	fs, err = openFS(base, esc, c.Sharding)
	if err != nil {
		// refusing such a directory outright would be fine too
		rec.CaseCounted(false, "init-refused")
		return nil
	}
	if got, err := fs.Get(ctx, key); err != nil || !bytes.Equal(got, A) {
		return fmt.Errorf("link=%s: the block put earlier reads %d bytes, err %v", link, len(got), err)
	}
	held, err := fs.GetStream(ctx, key)
	if err != nil {
		return fmt.Errorf("link=%s: GetStream: %v", link, err)
	}
	defer held.Close()
	head := make([]byte, len(A)/2)
	if _, err := io.ReadFull(held, head); err != nil {
		return fmt.Errorf("link=%s: reading the first half: %v", link, err)
	}
	put := func(k string, content []byte) error {
		if !c.Stream {
			return fs.Put(ctx, k, content)
		}
		w, commit, err := fs.PutStream(ctx)
		if err != nil {
			return err
		}
		if _, err := w.Write(content[:len(content)/2]); err != nil {
			_ = commit("")
			return err
		}
		if _, err := w.Write(content[len(content)/2:]); err != nil {
			_ = commit("")
			return err
		}
		return commit(k)
	}
	// a reader polls the fresh key while it is being put
	freshKey := "F" + key // same tail: the suffix-sharded layouts put it into the same shard directory
	stop := make(chan struct{})
	var wg sync.WaitGroup
	var pollErr error
	wg.Add(1)
	go func() {
		defer wg.Done()
		for {
			select {
			case <-stop:
				return
			default:
			}
			if got, err := fs.Get(ctx, freshKey); err == nil && !bytes.Equal(got, C) {
				pollErr = fmt.Errorf("link=%s: a reader polling the key being put saw %d bytes of its %d", link, len(got), len(C))
				return
			}
		}
	}()
	errFresh := put(freshKey, C)
	close(stop)
	wg.Wait()
	if pollErr != nil {
		return pollErr
	}
	errAgain := put(key, B) // second put under the key of the held reader, other content and length
	tail, rerr := io.ReadAll(held)
	if rerr != nil {
		return fmt.Errorf("link=%s: the reader that was open across the second put fails: %v", link, rerr)
	}
	if whole := append(head, tail...); !bytes.Equal(whole, A) {
		return fmt.Errorf("link=%s: the reader that had the block open across a second put of the key read %d bytes that are not the block it opened (%d bytes; complete block: %v; second put returned %v)", link, len(whole), len(A), blobComplete(whole), errAgain)
	}
	// a new store: every key is absent or one complete block that was put under it
	fs2, err := openFS(base, esc, c.Sharding)
	if err != nil {
		return fmt.Errorf("link=%s: the directory cannot be opened by a new store: %v", link, err)
	}
	got, err := fs2.Get(ctx, key)
	if err != nil || !(bytes.Equal(got, A) || (errAgain == nil && bytes.Equal(got, B))) {
		return fmt.Errorf("link=%s: after a second put (returned %v) the key reads %d bytes, err %v: neither block put under it", link, errAgain, len(got), err)
	}
	has, herr := fs2.Has(ctx, freshKey)
	got, gerr := fs2.Get(ctx, freshKey)
	if herr != nil || has != (gerr == nil) {
		return fmt.Errorf("link=%s: fresh key: Has=%v,%v but Get err=%v", link, has, herr, gerr)
	}
	if errFresh == nil && gerr != nil {
		return fmt.Errorf("link=%s: the put of the fresh key returned nil but the key is absent: %v", link, gerr)
	}
	if gerr == nil && !bytes.Equal(got, C) {
		return fmt.Errorf("link=%s: the fresh key is visible with %d of %d bytes (put returned %v)", link, len(got), len(C), errFresh)
	}
	for _, root := range []string{base, other} {
		err = filepath.Walk(root, func(p string, fi os.FileInfo, err error) error {
			if err != nil {
				return err
			}
			if fi.Name() == ".temp" {
				if fi.IsDir() {
					return filepath.SkipDir
				}
				return nil
			}
			if fi.IsDir() || fi.Mode()&os.ModeSymlink != 0 {
				return nil
			}
			if link == "staging" && root == other {
				return nil // this IS the staging area
			}
			b, rerr := os.ReadFile(p)
			if rerr != nil {
				return rerr
			}
			if !blobComplete(b) {
				return fmt.Errorf("link=%s: file %s outside the staging area holds a partial block (%d bytes)", link, p, len(b))
			}
			return nil
		})
		if err != nil {
			return err
		}
	}
	outcome := "refused"
	if errFresh == nil {
		outcome = "carried-over"
	}
	rec.CaseCounted(true, "link:"+link, "put:"+outcome, fmt.Sprintf("stream:%v", c.Stream))
	if rec.WantSample() {
		rec.Sample(c)
	}
	return nil
}

var c18Xdev = evid.Part[C18XdevCase]{
	Prop: "C18", Name: "otherfilesystem", Quick: 30, Thorough: 3000,
	Rule: "a store whose staging directory, or the shard directory of the key, is a symbolic link onto another filesystem (tmpfs under /dev/shm; counted as excluded when the machine has none), so that the final rename of a put crosses filesystems: a block put earlier is opened and half read, a fresh key is put (Put or PutStream in two writes) while a reader polls it, then another block of other length is put under the key of the open reader; the open reader must deliver exactly the block it opened, the polling reader only absent or the complete block, and a new store must find every key absent or holding one complete block put under it (present if its put returned nil), with no partial file outside the staging area on either filesystem; every execution is counted, non-trivial = a second filesystem was available",
	Gen: func(t *rapid.T) C18XdevCase {
		sizes := []int{1, 17, 300, 5000, 70000, 1<<20 - 40, 3 << 20}
		return C18XdevCase{
			Sharding: rapid.SampledFrom([]string{"", "r12", "r122", "r133", "none", "deep"}).Draw(t, "sharding"),
			Link:     rapid.SampledFrom([]string{"staging", "shard"}).Draw(t, "link"),
			Seed:     rapid.Byte().Draw(t, "seed"),
			SizeA:    rapid.SampledFrom(sizes).Draw(t, "a"), SizeB: rapid.SampledFrom(sizes).Draw(t, "b"), SizeC: rapid.SampledFrom(sizes).Draw(t, "c"),
			Stream: rapid.Bool().Draw(t, "stream"),
			Key:    val.Txt("K" + string(rapid.SliceOfN(rapid.Byte(), 4, 10).Draw(t, "k"))),
		}
	},
	Check: c18XdevCheck,
}.Reg()

func TestC18_OtherFilesystem(t *testing.T) { c18Xdev.Run(t) }
