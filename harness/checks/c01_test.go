package checks

import (
	"fmt"
	"testing"

	"github.com/ipld/go-ipld-prime/datamodel"
	"pgregory.net/rapid"

	"verif/evid"
	"verif/nodes"
	"verif/val"
)

// C01: what is built through the builder API is exactly what the node API reads back.

type C01Case struct {
	V      val.V  `json:"v"`
	Prog   []byte `json:"prog"`
	Impl   string `json:"impl"`
	Prog2  []byte `json:"prog2"`
	Impl2  string `json:"impl2"`
	MutAt  int    `json:"mut_at"` // -1: the second value is the same value rebuilt another way
	MutHow int    `json:"mut_how"`
}

func deepEqualGuarded(a, b datamodel.Node) (eq bool, err error) {
	err = evid.Guard("DeepEqual", func() error { eq = datamodel.DeepEqual(a, b); return nil })
	return
}

func c01Check(c C01Case, rec *evid.Rec) error {
	impl := nodes.Impl(c.Impl)
	prog := nodes.NewProg(c.Prog)
	n, err := nodes.Build(c.V, prog, nodes.ProtoFor(impl, c.V.K))
	if err != nil {
		return fmt.Errorf("a legal builder call sequence (%s) failed: %w", impl, err)
	}
	got, err := nodes.Full.Read(n)
	if err != nil {
		return fmt.Errorf("node built by %s is not self-consistent: %w", impl, err)
	}
	if !val.Equal(got, c.V, val.Ordered) {
		return fmt.Errorf("built %s with %s but it reads back as %s", c.V.Short(300), impl, got.Short(300))
	}
	// the bindnode containers once more with NON-nullable Any members ({String:Any}, [Any]: the member slot
	// is a node, not a pointer to one), for values whose root has no null member
	if impl == nodes.BindAnyC && (c.V.K == val.Map || c.V.K == val.List) {
		nn, err := nodes.Build(c.V, nodes.NewProg(c.Prog), nodes.ProtoFor(nodes.BindAnyNN, c.V.K))
		if err != nil {
			return fmt.Errorf("a legal builder call sequence (%s) failed: %w", nodes.BindAnyNN, err)
		}
		gnn, err := nodes.Full.Read(nn)
		if err != nil {
			return fmt.Errorf("node built by %s is not self-consistent: %w", nodes.BindAnyNN, err)
		}
		if !val.Equal(gnn, c.V, val.Ordered) {
			return fmt.Errorf("built %s with %s but it reads back as %s", c.V.Short(300), nodes.BindAnyNN, gnn.Short(300))
		}
	}
	// reading is repeatable
	got2, err := nodes.Plain.Read(n)
	if err != nil || !val.Equal(got2, c.V, val.Ordered) {
		return fmt.Errorf("second read of the node differs: %s (err %v)", got2.Short(300), err)
	}
	hasUint := c.V.Has(func(x val.V) bool { return x.K == val.Uint })
	// second value: same value rebuilt differently, or a one-point mutation
	v2 := c.V
	mutated := false
	if c.MutAt >= 0 {
		if m, ok := val.Mutate(c.V, c.MutAt%c.V.Size(), c.MutHow); ok {
			v2, mutated = m, true
		}
	}
	impl2 := nodes.Impl(c.Impl2)
	n2, err := nodes.Build(v2, nodes.NewProg(c.Prog2), nodes.ProtoFor(impl2, v2.K))
	if err != nil {
		return fmt.Errorf("a legal builder call sequence (%s) failed: %w", impl2, err)
	}
	r2, err := nodes.Full.Read(n2)
	if err != nil {
		return fmt.Errorf("node built by %s is not self-consistent: %w", impl2, err)
	}
	if !val.Equal(r2, v2, val.Ordered) {
		return fmt.Errorf("built %s with %s but it reads back as %s", v2.Short(300), impl2, r2.Short(300))
	}
	if !hasUint && !v2.Has(func(x val.V) bool { return x.K == val.Uint }) {
		want := val.EqualGoFloat(c.V, v2)
		for _, pair := range [][2]datamodel.Node{{n, n2}, {n2, n}} {
			eq, err := deepEqualGuarded(pair[0], pair[1])
			if err != nil {
				return fmt.Errorf("DeepEqual(%s, %s): %w", c.V.Short(150), v2.Short(150), err)
			}
			if eq != want {
				return fmt.Errorf("DeepEqual = %v for %s (%s) and %s (%s); abstract values equal = %v", eq, c.V.Short(200), impl, v2.Short(200), impl2, want)
			}
		}
		if eq, err := deepEqualGuarded(n, n); err != nil || !eq {
			return fmt.Errorf("DeepEqual(n, n) = %v, %v", eq, err)
		}
		// Copy into a builder of the other implementation
		nb := nodes.ProtoFor(impl2, c.V.K).NewBuilder()
		if err := evid.Guard("Copy", func() error { return datamodel.Copy(n, nb) }); err != nil {
			return fmt.Errorf("Copy from %s into %s failed: %w", impl, impl2, err)
		}
		cv, err := nodes.Full.Read(nb.Build())
		if err != nil {
			return fmt.Errorf("copied node is not self-consistent: %w", err)
		}
		if !val.Equal(cv, c.V, val.Ordered) {
			return fmt.Errorf("Copy from %s into %s gives %s, want %s", impl, impl2, cv.Short(300), c.V.Short(300))
		}
	}
	big := false
	c.V.Walk(func(x val.V) {
		if (x.K == val.Map && len(x.Ents) >= 2) || (x.K == val.List && len(x.Items) >= 2) {
			big = true
		}
	})
	nt := (big || c.V.Depth() >= 3) && prog.DistinctStyles() >= 2
	cls := []string{"impl:" + c.Impl, "root:" + c.V.K.String()}
	if mutated {
		cls = append(cls, "pair:mutated")
	} else {
		cls = append(cls, "pair:rebuilt")
	}
	for s := range prog.Styles {
		cls = append(cls, "style:"+s)
	}
	h := val.HashBytes(append(c.V.AppendCanon(nil), fmt.Sprintf("|%x|%s|%x|%s|%d|%d", c.Prog, c.Impl, c.Prog2, c.Impl2, c.MutAt, c.MutHow)...))
	rec.Case(h, nt, cls...)
	if nt && rec.WantSample() && c.V.Size() < 30 {
		rec.Sample(map[string]any{"value": c.V.String(), "impl": c.Impl, "program": fmt.Sprintf("%x", c.Prog), "styles": prog.Styles, "second": v2.String(), "impl2": c.Impl2})
	}
	return nil
}

var c01Part = evid.Part[C01Case]{
	Prop: "C01", Name: "buildread", Quick: 5000, Thorough: 500000,
	Rule: "value × builder program (size hints, entry shortcut vs key+value, scalar assign vs AssignNode of a node from another implementation) × implementation, plus a second value (same value rebuilt otherwise, or a one-point mutation) for DeepEqual/Copy; non-trivial = some container has ≥2 entries or depth ≥3, and the program used ≥2 distinct call styles; distinct by (value, programs, implementations, mutation)",
	Gen: func(t *rapid.T) C01Case {
		p := val.FullProfile()
		c := C01Case{
			V:     val.DrawV(t, &p, "v"),
			Prog:  rapid.SliceOfN(rapid.Byte(), 0, 32).Draw(t, "prog"),
			Impl:  string(rapid.SampledFrom(nodes.Impls).Draw(t, "impl")),
			Prog2: rapid.SliceOfN(rapid.Byte(), 0, 16).Draw(t, "prog2"),
			Impl2: string(rapid.SampledFrom(nodes.Impls).Draw(t, "impl2")),
			MutAt: -1,
		}
		if rapid.Bool().Draw(t, "mutate") {
			c.MutAt = rapid.IntRange(0, 200).Draw(t, "mut_at")
			c.MutHow = rapid.IntRange(0, 50).Draw(t, "mut_how")
		}
		return c
	},
	Check: c01Check,
}.Reg()

func TestC01_BuildRead(t *testing.T) { c01Part.Run(t) }
