package checks

import (
	"fmt"
	"strconv"
	"strings"
	"testing"

	"github.com/ipld/go-ipld-prime/datamodel"
	"github.com/ipld/go-ipld-prime/linking"
	"github.com/ipld/go-ipld-prime/node/basicnode"
	"github.com/ipld/go-ipld-prime/traversal"
	"pgregory.net/rapid"

	"verif/evid"
	"verif/graph"
	"verif/nodes"
	"verif/refsel"
	"verif/selx"
	"verif/val"
)

// C14: paths address what was visited: walk paths, focus/get and stepwise lookup agree.

type C14Case struct {
	G     graph.Graph `json:"graph"`
	Paths [][]string  `json:"paths"` // arbitrary paths as segment strings (val.Txt form)
}

var exploreAll = refsel.Rec(-1, refsel.Union(refsel.Match(), refsel.All(refsel.Edge())))

// mkPath builds a path from segment strings. A segment that is the canonical decimal form of a
// non-negative integer is built with PathSegmentOfInt in about half of the positions (a deterministic
// function of the path, so cases replay): the two forms are documented to be the same segment, for
// list indices and for map keys alike.
func mkPath(segs []string) datamodel.Path {
	// the caller's buffer is full (len == cap) for an odd number of segments and has spare room otherwise
	ps := make([]datamodel.PathSegment, len(segs), len(segs)+(len(segs)+1)%2*3)
	for i, s := range segs {
		ps[i] = datamodel.PathSegmentOfString(s)
		if n, err := strconv.ParseInt(s, 10, 64); err == nil && n >= 0 && strconv.FormatInt(n, 10) == s && (i+len(segs)+int(s[len(s)-1]))%2 == 0 {
			ps[i] = datamodel.PathSegmentOfInt(n)
		}
	}
	p := datamodel.NewPath(ps)
	// NewPath copies ("in case your segments slice should mutate in the future"): the caller reuses its buffer
	// for something else straight away — overwriting it in place and appending over it
	for i := range ps {
		ps[i] = datamodel.PathSegmentOfString("zz-buffer-reused")
	}
	_ = append(ps[:0], datamodel.PathSegmentOfInt(77), datamodel.PathSegmentOfInt(78))
	return p
}

// stepwise resolves the path one LookupBySegment at a time, loading links through lsys.
func stepwise(r *graph.Real, path datamodel.Path) (n datamodel.Node, err error) {
	defer func() {
		if rec := recover(); rec != nil {
			err = fmt.Errorf("PANIC in stepwise lookup: %v", rec)
		}
	}()
	cur := r.Root
	for _, seg := range path.Segments() {
		next, err := cur.LookupBySegment(seg)
		if err != nil {
			return nil, err
		}
		cur = next
		for cur.Kind() == datamodel.Kind_Link {
			l, _ := cur.AsLink()
			cur, err = r.LSys.Load(linking.LinkContext{}, l, basicnode.Prototype.Any)
			if err != nil {
				return nil, err
			}
		}
	}
	return cur, nil
}

func c14Check(c C14Case, rec *evid.Rec) error {
	real, err := graph.Realise(c.G, nil)
	if err != nil {
		return err
	}
	store := c.G.Store()
	sel, err := selx.CompileSpec(exploreAll)
	if err != nil {
		return err
	}
	cfg := selx.Config(real)
	w := selx.WalkAdv(real, traversal.Progress{Cfg: cfg}, sel)
	if w.Err != nil {
		return fmt.Errorf("explore-all walk failed: %w", w.Err)
	}
	want := refsel.Walk(c.G, exploreAll)
	if d := selx.DiffVisits(w.Visits, want.Visits); d != "" {
		return fmt.Errorf("explore-all walk differs from the reference: %s", d)
	}
	nontrivial := 0
	check := func(path datamodel.Path, segs []string, visited *val.V, lenient bool) error {
		wantV, wantErr := graph.Resolve(c.G.Root, store, segs, true)
		var got datamodel.Node
		gerr := evid.Guard("Get", func() error {
			var e error
			got, e = traversal.Progress{Cfg: cfg}.Get(real.Root, path)
			return e
		})
		if gerr != nil && strings.HasPrefix(gerr.Error(), "PANIC") {
			return fmt.Errorf("path %q: %v", path.String(), gerr)
		}
		var focused datamodel.Node
		var focusPath string
		ferr := evid.Guard("Focus", func() error {
			return traversal.Progress{Cfg: cfg}.Focus(real.Root, path, func(p traversal.Progress, n datamodel.Node) error {
				focused, focusPath = n, p.Path.String()
				return nil
			})
		})
		if ferr != nil && strings.HasPrefix(ferr.Error(), "PANIC") {
			return fmt.Errorf("path %q: %v", path.String(), ferr)
		}
		sn, serr := stepwise(real, path)
		if serr != nil && strings.HasPrefix(serr.Error(), "PANIC") {
			return fmt.Errorf("path %q: %v", path.String(), serr)
		}
		if (gerr == nil) != (ferr == nil) || (gerr == nil) != (serr == nil) {
			return fmt.Errorf("path %q: Get err=%v, Focus err=%v, stepwise err=%v disagree", path.String(), gerr, ferr, serr)
		}
		if lenient {
			// a non-canonical numeric segment on a list: only agreement between the forms is required
			if gerr != nil {
				return nil
			}
		} else if (gerr == nil) != (wantErr == nil) {
			return fmt.Errorf("path %q: Get err=%v but the abstract resolution says %v", path.String(), gerr, wantErr)
		}
		if gerr != nil {
			return nil
		}
		for name, n := range map[string]datamodel.Node{"Get": got, "Focus": focused, "stepwise lookup": sn} {
			v, err := nodes.Read(n)
			if err != nil {
				return fmt.Errorf("path %q: %s result unreadable: %w", path.String(), name, err)
			}
			if !lenient && !val.Equal(v, wantV, val.Ordered) {
				return fmt.Errorf("path %q: %s gives %s, the abstract graph has %s", path.String(), name, v.Short(150), wantV.Short(150))
			}
			if visited != nil && !val.Equal(v, *visited, val.Ordered) {
				return fmt.Errorf("path %q: %s gives %s but the walk visited %s there", path.String(), name, v.Short(150), visited.Short(150))
			}
			if lenient {
				gv, _ := nodes.Read(got)
				if !val.Equal(v, gv, val.Ordered) {
					return fmt.Errorf("path %q: %s gives %s but Get gives %s", path.String(), name, v.Short(150), gv.Short(150))
				}
			}
		}
		if focusPath != path.String() {
			return fmt.Errorf("Focus reported Progress.Path %q for path %q", focusPath, path.String())
		}
		return nil
	}
	for i, v := range w.Visits {
		p := w.Paths[i]
		segs := make([]string, p.Len())
		for j, s := range p.Segments() {
			segs[j] = s.String()
		}
		vv := v.Value
		if err := check(p, segs, &vv, false); err != nil {
			return fmt.Errorf("visited %w", err)
		}
		// the same path rebuilt from plain strings, and re-parsed from its string form
		if err := check(mkPath(segs), segs, &vv, false); err != nil {
			return fmt.Errorf("visited (rebuilt from strings) %w", err)
		}
		ok := true
		for _, s := range segs {
			if s == "" || strings.Contains(s, "/") {
				ok = false
			}
		}
		if ok {
			if err := check(datamodel.ParsePath(p.String()), segs, &vv, false); err != nil {
				return fmt.Errorf("visited (re-parsed) %w", err)
			}
		}
		// starting AT a link node (what a caller holds after a lookup that did not load): the path-directed
		// functions do not dereference the node they start from; a non-empty path from it fails like from any scalar,
		// and so does a stepwise lookup
		if len(segs) >= 1 && i%2 == 0 {
			if parent, perr := stepwise(real, mkPath(segs[:len(segs)-1])); perr == nil && (parent.Kind() == datamodel.Kind_Map || parent.Kind() == datamodel.Kind_List) {
				if raw, lerr := parent.LookupBySegment(datamodel.PathSegmentOfString(segs[len(segs)-1])); lerr == nil && raw.Kind() == datamodel.Kind_Link {
					for _, tail := range [][]string{{"a"}, {"0"}, {"nosuch", "a"}, {"l"}} {
						var got datamodel.Node
						gerr := evid.Guard("Get", func() error {
							var e error
							got, e = traversal.Progress{Cfg: cfg}.Get(raw, mkPath(tail))
							return e
						})
						if gerr == nil {
							gv, _ := nodes.Read(got)
							return fmt.Errorf("Get starting at the link node found at %q with path %q returned %s; a link node has no children (a stepwise lookup fails there)", p.String(), mkPath(tail).String(), gv.Short(100))
						}
						if strings.HasPrefix(gerr.Error(), "PANIC") {
							return fmt.Errorf("Get starting at the link node found at %q: %v", p.String(), gerr)
						}
					}
					rec.Class("start-at-link-node")
				}
			}
		}
		// the documented nested use: a Focus started from inside the visit of another Focus (its Progress already
		// has a path) reports the whole path from the root, and reaches the same node
		if len(segs) >= 1 {
			// k == len(segs): the nested Focus has the empty path (it addresses the node of the outer visit itself)
			k := 1 + (i+len(segs))%len(segs)
			prefix, suffix := mkPath(segs[:k]), mkPath(segs[k:])
			var inner datamodel.Node
			innerPath := ""
			nerr := evid.Guard("nested Focus", func() error {
				return traversal.Progress{Cfg: cfg}.Focus(real.Root, prefix, func(p1 traversal.Progress, n1 datamodel.Node) error {
					return p1.Focus(n1, suffix, func(p2 traversal.Progress, n2 datamodel.Node) error {
						inner, innerPath = n2, p2.Path.String()
						return nil
					})
				})
			})
			if nerr != nil {
				return fmt.Errorf("visited path %q: Focus on %q and, inside its visit, Focus on %q failed: %v", p.String(), prefix.String(), suffix.String(), nerr)
			}
			if innerPath != mkPath(segs).String() {
				return fmt.Errorf("visited path %q: a Focus on %q nested inside the visit of a Focus on %q reports Progress.Path %q", p.String(), suffix.String(), prefix.String(), innerPath)
			}
			if iv, err := nodes.Read(inner); err != nil || !val.Equal(iv, vv, val.Ordered) {
				return fmt.Errorf("visited path %q: nested Focus reaches %s, the walk visited %s (err %v)", p.String(), iv.Short(120), vv.Short(120), err)
			}
			rec.Class("nested-focus")
		}
		if len(segs) >= 2 {
			nontrivial++
		}
		rec.Class("visit-path")
	}
	for _, tp := range c.Paths {
		segs := make([]string, len(tp))
		for i, s := range tp {
			segs[i], _ = val.UnTxt(s)
		}
		lenient := graph.LenientIndex(c.G.Root, store, segs)
		if err := check(mkPath(segs), segs, nil, lenient); err != nil {
			return fmt.Errorf("arbitrary %w", err)
		}
		if _, err := graph.Resolve(c.G.Root, store, segs, true); err != nil {
			rec.Class("arbitrary-path:fails")
			if len(segs) >= 2 && !strings.Contains(err.Error(), "segment 0") {
				nontrivial++
			}
		} else {
			rec.Class("arbitrary-path:resolves")
		}
		if lenient {
			rec.Class("arbitrary-path:lenient-index")
		}
	}
	b, _ := jsonMarshal(c)
	rec.Case(val.HashBytes(b), nontrivial > 0 || len(want.Loads) > 0, fmt.Sprintf("links-crossed:%v", len(want.Loads) > 0))
	if nontrivial > 0 && rec.WantSample() && len(b) < 2500 {
		var ps []string
		for _, p := range w.Paths {
			ps = append(ps, p.String())
		}
		rec.Sample(map[string]any{"root": c.G.Root.String(), "blocks": len(c.G.Blocks), "visited_paths": ps, "arbitrary_paths": c.Paths})
	}
	return nil
}

var c14Part = evid.Part[C14Case]{
	Prop: "C14", Name: "paths", Quick: 1500, Thorough: 150000,
	Rule: "block graph (keys incl. empty, '/', NUL, numeric-looking) × every visit of an explore-all recursive walk through links (all reachable positions) × Get/Focus/stepwise lookup with the walk's path object (and a Focus on the rest of the path nested inside the visit of a Focus on its beginning), the path rebuilt from strings and the re-parsed string form, plus drawn arbitrary paths (existing prefix + tail, list segments '2','02','+2','-0','x','', through scalars and links); non-trivial = a visit path of length ≥2 or a link crossed, or an arbitrary path failing below the root; distinct by (graph, paths)",
	Gen: func(t *rapid.T) C14Case {
		o := graph.DefaultOpts()
		if rapid.Bool().Draw(t, "richkeys") {
			o.Profile.SmallKeys = false
		}
		g := graph.Draw(t, o)
		c := C14Case{G: g}
		// arbitrary paths: walk down the abstract graph for a while, then maybe go astray
		store := g.Store()
		np := rapid.IntRange(0, 6).Draw(t, "npaths")
		for i := 0; i < np; i++ {
			var segs []string
			cur := g.Root
			steps := rapid.IntRange(0, 5).Draw(t, "steps")
			for s := 0; s < steps; s++ {
				for cur.K == val.Link {
					b, ok := store[cur.S]
					if !ok {
						break
					}
					cur = b
				}
				ch := graph.Children(cur)
				if len(ch) == 0 || rapid.IntRange(0, 4).Draw(t, "astray") == 0 {
					segs = append(segs, rapid.SampledFrom([]string{"x", "", "0", "1", "02", "+2", "-0", "-1", "1.0", "99", "a", "/", "a/b", "\x00", "9223372036854775808", "0x1", "0X0", "0b1", "0o1", "1_0", "0_1", "1e0", " 1", "1 "}).Draw(t, "odd"))
					break
				}
				e := ch[rapid.IntRange(0, len(ch)-1).Draw(t, "child")]
				seg := e.K
				if cur.K == val.List && rapid.IntRange(0, 5).Draw(t, "altform") == 0 {
					seg = rapid.SampledFrom([]string{"0" + seg, "+" + seg, "-" + seg}).Draw(t, "form")
				}
				segs = append(segs, seg)
				cur = e.V
			}
			if rapid.IntRange(0, 3).Draw(t, "tail") == 0 {
				segs = append(segs, rapid.SampledFrom([]string{"a", "0", "zz"}).Draw(t, "tailseg"))
			}
			tx := make([]string, len(segs))
			for j, s := range segs {
				tx[j] = val.Txt(s)
			}
			c.Paths = append(c.Paths, tx)
		}
		return c
	},
	Check: c14Check,
}.Reg()

func TestC14_Paths(t *testing.T) { c14Part.Run(t) }

// C14 second part: path <-> string round trip and the immutability of Path values.
type C14StrCase struct {
	Segs []string `json:"segs"` // val.Txt form
	A    string   `json:"a"`
	B    string   `json:"b"`
}

func c14StrCheck(c C14StrCase, rec *evid.Rec) error {
	segs := make([]string, len(c.Segs))
	for i, s := range c.Segs {
		segs[i], _ = val.UnTxt(s)
	}
	a, _ := val.UnTxt(c.A)
	b, _ := val.UnTxt(c.B)
	return evid.Guard("path operations", func() error {
		p := mkPath(segs)
		if p.Len() != len(segs) {
			return fmt.Errorf("Len=%d for %d segments", p.Len(), len(segs))
		}
		clean := true
		for i, s := range segs {
			if p.Segments()[i].String() != s {
				return fmt.Errorf("segment %d is %q, want %q", i, p.Segments()[i].String(), s)
			}
			if s == "" || strings.Contains(s, "/") {
				clean = false
			}
		}
		str := p.String()
		if str != strings.Join(segs, "/") {
			return fmt.Errorf("String()=%q, want %q", str, strings.Join(segs, "/"))
		}
		q := datamodel.ParsePath(str)
		if clean {
			if q.Len() != p.Len() {
				return fmt.Errorf("ParsePath(String()) has %d segments, want %d (%q)", q.Len(), p.Len(), str)
			}
			for i := range segs {
				if !q.Segments()[i].Equals(p.Segments()[i]) || q.Segments()[i].String() != segs[i] {
					return fmt.Errorf("ParsePath(String()) segment %d = %q, want %q", i, q.Segments()[i].String(), segs[i])
				}
			}
			if q.String() != str {
				return fmt.Errorf("ParsePath(String()).String() = %q, want %q", q.String(), str)
			}
		}
		for _, s := range q.Segments() {
			if s.String() == "" || strings.Contains(s.String(), "/") {
				return fmt.Errorf("ParsePath(%q) produced segment %q", str, s.String())
			}
		}
		// appending to a path never disturbs the path it came from, nor a sibling
		pa := p.AppendSegmentString(a)
		pb := p.AppendSegmentString(b)
		if pa.Len() != len(segs)+1 || pa.Last().String() != a || pb.Last().String() != b || p.Len() != len(segs) {
			return fmt.Errorf("AppendSegment aliasing: after appending %q and %q to %q got %q and %q", a, b, str, pa.String(), pb.String())
		}
		j := p.Join(mkPath([]string{a, b}))
		if j.Len() != len(segs)+2 || j.Truncate(len(segs)).String() != str || pa.Last().String() != a {
			return fmt.Errorf("Join/Truncate disagree: %q", j.String())
		}
		// the empty path is the neutral element of Join, on either side
		if e := datamodel.NewPath(nil); p.Join(e).Len() != len(segs) || e.Join(p).Len() != len(segs) || p.Join(e).String() != str || e.Join(p).String() != str {
			return fmt.Errorf("Join with the empty path: %q.Join(\"\") = %q, \"\".Join(%q) = %q", str, p.Join(e).String(), str, e.Join(p).String())
		}
		if len(segs) > 0 {
			first, rest := p.Shift()
			if first.String() != segs[0] || rest.Len() != len(segs)-1 || p.Parent().Len() != len(segs)-1 || p.Pop().Len() != len(segs)-1 {
				return fmt.Errorf("Shift/Parent/Pop disagree on %q", str)
			}
		}
		// segment equality: numeric and string forms of the same index are equal
		for i := int64(0); i < 3; i++ {
			si, ss := datamodel.PathSegmentOfInt(i), datamodel.PathSegmentOfString(fmt.Sprint(i))
			if !si.Equals(ss) || !ss.Equals(si) || si.String() != ss.String() {
				return fmt.Errorf("PathSegmentOfInt(%d) and PathSegmentOfString(%q) are not equal", i, fmt.Sprint(i))
			}
			if x, err := ss.Index(); err != nil || x != i {
				return fmt.Errorf("Index() of %q = %d, %v", fmt.Sprint(i), x, err)
			}
		}
		sa, sb := datamodel.PathSegmentOfString(a), datamodel.PathSegmentOfString(b)
		if sa.Equals(sb) != (a == b) {
			return fmt.Errorf("PathSegment.Equals(%q, %q) = %v", a, b, sa.Equals(sb))
		}
		nt := len(segs) >= 2
		rec.Case(val.HashBytes([]byte(strings.Join(c.Segs, "\x01")+"|"+c.A+"|"+c.B)), nt, fmt.Sprintf("clean:%v", clean))
		if nt && rec.WantSample() {
			rec.Sample(c)
		}
		return nil
	})
}

var c14Str = evid.Part[C14StrCase]{
	Prop: "C14", Name: "pathstrings", Quick: 5000, Thorough: 300000,
	Rule: "arbitrary segment strings (any bytes, empty, slashes): String/ParsePath round trip whenever no segment is empty or contains '/', segment-wise equality, and Append/Join/Truncate/Shift/Parent value semantics (no aliasing); non-trivial = ≥2 segments; distinct by segments",
	Gen: func(t *rapid.T) C14StrCase {
		n := rapid.IntRange(0, 6).Draw(t, "n")
		c := C14StrCase{}
		seg := func(l string) string {
			if rapid.IntRange(0, 4).Draw(t, l+".odd") == 0 {
				return val.Txt(rapid.SampledFrom([]string{"", "/", "a/b", "//", "\x00", "..", ".", "0", "-1", "é"}).Draw(t, l))
			}
			return val.Txt(val.DrawText(t, l, false, 4))
		}
		for i := 0; i < n; i++ {
			c.Segs = append(c.Segs, seg("seg"))
		}
		c.A, c.B = seg("a"), seg("b")
		return c
	},
	Check: c14StrCheck,
}.Reg()

func TestC14_PathStrings(t *testing.T) { c14Str.Run(t) }
