package checks

import (
	"bytes"
	"fmt"
	"math"
	"runtime"
	"runtime/debug"
	"strings"
	"testing"

	"github.com/ipfs/go-cid"
	"github.com/ipld/go-ipld-prime/codec/cbor"
	"github.com/ipld/go-ipld-prime/codec/dagcbor"
	"github.com/ipld/go-ipld-prime/datamodel"
	cidlink "github.com/ipld/go-ipld-prime/linking/cid"
	"github.com/ipld/go-ipld-prime/multicodec"
	"github.com/ipld/go-ipld-prime/node/basicnode"
	"pgregory.net/rapid"

	"verif/evid"
	"verif/nodes"
	"verif/refcbor"
	"verif/val"
)

// C02: DAG-CBOR encoding is canonical, order-independent, and round-trips.

type C02Case struct {
	V    val.V  `json:"v"`
	Perm []byte `json:"perm"`
	Prog []byte `json:"prog"`
	Impl string `json:"impl"`
}

func nearHeadBoundary(x uint64) bool {
	for _, b := range []uint64{24, 256, 65536, 1 << 32} {
		if x+2 >= b && x <= b+2 {
			return true
		}
	}
	return x >= math.MaxUint64-2
}

func c02Nontrivial(v, permuted val.V) bool {
	nt := false
	v.Walk(func(x val.V) {
		switch x.K {
		case val.Link, val.Uint, val.Float:
			nt = true
		case val.Int:
			u := uint64(x.I)
			if x.I < 0 {
				u = uint64(-1 - x.I)
			}
			if nearHeadBoundary(u) {
				nt = true
			}
		case val.String, val.Bytes:
			if nearHeadBoundary(uint64(len(x.S))) {
				nt = true
			}
		case val.List:
			if nearHeadBoundary(uint64(len(x.Items))) {
				nt = true
			}
		case val.Map:
			if nearHeadBoundary(uint64(len(x.Ents))) {
				nt = true
			}
		}
	})
	if !nt {
		canon := permuted.SortKeys(val.LessLenFirst)
		if !val.Equal(canon, permuted, val.Ordered) {
			nt = true
		}
	}
	return nt
}

func c02Check(c C02Case, rec *evid.Rec) error {
	ref, err := refcbor.Encode(c.V)
	if err != nil {
		return nil // outside the domain (cannot happen with the generators)
	}
	permuted := val.Permute(c.V, c.Perm)
	impl := nodes.Impl(c.Impl)
	prog := nodes.NewProg(c.Prog)
	n, err := nodes.Build(permuted, prog, nodes.ProtoFor(impl, c.V.K))
	if err != nil {
		return fmt.Errorf("building the value with %s failed: %w", impl, err)
	}
	enc, err := encDagCbor(n)
	if err != nil {
		return fmt.Errorf("dagcbor.Encode failed on an encodable value: %w", err)
	}
	if !bytes.Equal(enc, ref) {
		return fmt.Errorf("dagcbor.Encode (%s) differs from canonical bytes at offset %d: got %s want %s", impl, firstDiff(enc, ref), clip(enc), clip(ref))
	}
	// the registered multicodec encoder is the same function of the value
	if e, err := multicodec.LookupEncoder(0x71); err != nil {
		return fmt.Errorf("no dag-cbor encoder registered: %w", err)
	} else {
		var buf bytes.Buffer
		if err := evid.Guard("registry encoder", func() error { return e(n, &buf) }); err != nil {
			return fmt.Errorf("registered dag-cbor encoder failed: %w", err)
		}
		if !bytes.Equal(buf.Bytes(), ref) {
			return fmt.Errorf("registered dag-cbor encoder differs from canonical bytes: got %s want %s", clip(buf.Bytes()), clip(ref))
		}
	}
	// predicted length
	var l int64
	err = evid.Guard("EncodedLength", func() error { var e error; l, e = dagcbor.EncodedLength(n); return e })
	if err != nil {
		return fmt.Errorf("EncodedLength failed although Encode succeeded (%d bytes): %w", len(enc), err)
	}
	if l != int64(len(enc)) {
		return fmt.Errorf("EncodedLength=%d but Encode produced %d bytes", l, len(enc))
	}
	// a second implementation / insertion order gives the same bytes
	n0, err := nodes.BuildDefault(c.V)
	if err != nil {
		return fmt.Errorf("building with basicnode failed: %w", err)
	}
	enc0, err := encDagCbor(n0)
	if err != nil || !bytes.Equal(enc0, ref) {
		return fmt.Errorf("dagcbor.Encode (basicnode, original order) differs: err=%v got %s want %s", err, clip(enc0), clip(ref))
	}
	// decode gives the value back, maps in canonical order
	want := c.V.SortKeys(val.LessLenFirst)
	for _, target := range []nodes.Impl{nodes.BasicAny, impl} {
		nb := nodes.ProtoFor(target, c.V.K).NewBuilder()
		if err := evid.Guard("dagcbor.Decode", func() error { return dagcbor.Decode(nb, c03Reader(enc)) }); err != nil {
			return fmt.Errorf("dagcbor.Decode into %s of canonical bytes %s failed: %w", target, clip(enc), err)
		}
		got, err := nodes.Full.Read(nb.Build())
		if err != nil {
			return fmt.Errorf("decoded node (%s) is inconsistent: %w", target, err)
		}
		if !val.Equal(got, want, val.Ordered) {
			return fmt.Errorf("decode(encode(v)) into %s = %s, want %s", target, got.Short(300), want.Short(300))
		}
	}
	// the plain cbor codec: same heads, no sorting, no links
	hasLink := c.V.Has(func(x val.V) bool { return x.K == val.Link })
	var cb bytes.Buffer
	cerr := evid.Guard("cbor.Encode", func() error { return cbor.Encode(n, &cb) })
	if hasLink {
		if cerr == nil {
			return fmt.Errorf("cbor.Encode accepted a value containing a link")
		}
	} else {
		// n iterates in `permuted` order, except that the bindnode representation of a
		// typed map is the same order too; so the expectation is the unsorted encoding.
		uref, _ := refcbor.EncodeUnsorted(permuted)
		if cerr != nil {
			return fmt.Errorf("cbor.Encode failed: %w", cerr)
		}
		if !bytes.Equal(cb.Bytes(), uref) {
			return fmt.Errorf("cbor.Encode differs from the order-preserving encoding: got %s want %s", clip(cb.Bytes()), clip(uref))
		}
	}
	nt := c02Nontrivial(c.V, permuted)
	rec.Case(val.HashBytes(append(ref, c.Impl...)), nt, "impl:"+c.Impl, "root:"+c.V.K.String())
	if nt && rec.WantSample() && len(ref) < 400 && (c.V.Size() >= 4 || rec.Part != "encode") {
		rec.Sample(map[string]any{"value": c.V.String(), "impl": c.Impl, "bytes": fmt.Sprintf("%x", ref)})
	}
	return nil
}

var c02Rule = "value × map insertion permutation × builder program × implementation; non-trivial = contains a link, uint64 above int64, float, " +
	"an int/length within ±2 of a CBOR head-size boundary (24, 256, 65536, 2^32), or a map whose insertion order differs from canonical order; distinct by (canonical bytes, implementation)"

var c02Part = evid.Part[C02Case]{
	Prop: "C02", Name: "encode", Rule: c02Rule, Quick: 4000, Thorough: 400000,
	Gen: func(t *rapid.T) C02Case {
		p := val.FullProfile()
		return C02Case{
			V:    val.DrawV(t, &p, "v"),
			Perm: rapid.SliceOfN(rapid.Byte(), 0, 24).Draw(t, "perm"),
			Prog: rapid.SliceOfN(rapid.Byte(), 0, 24).Draw(t, "prog"),
			Impl: string(rapid.SampledFrom(nodes.Impls).Draw(t, "impl")),
		}
	},
	Check: c02Check,
}.Reg()

func TestC02_Encode(t *testing.T) { c02Part.Run(t) }

// TestC02_Table enumerates the head-size boundary table completely (both tiers).
func TestC02_Table(t *testing.T) {
	if evid.Shard() != 0 {
		t.Skip("table is enumerated by shard 0 only")
	}
	rec := evid.New("C02", "table", "deterministic boundary table, enumerated completely: every int 2^k+{-2..2} and its negation, uint64 above int64 likewise, string/bytes/list/map lengths 0..300 and 65530..65540 (2^32 boundary lengths for strings in thorough); non-trivial and distinct as in [encode]")
	rec.Exhaustive()
	defer rec.Flush()
	var cases []val.V
	for k := 0; k < 64; k++ {
		for d := int64(-2); d <= 2; d++ {
			if k < 63 {
				x := int64(1)<<uint(k) + d
				cases = append(cases, val.MkInt(x), val.MkInt(-x), val.MkInt(-x-1))
			}
			u := uint64(1)<<uint(k) + uint64(d)
			cases = append(cases, val.MkUint(u))
		}
	}
	cases = append(cases, val.MkInt(math.MaxInt64), val.MkInt(math.MinInt64), val.MkUint(math.MaxUint64))
	lengths := []int{}
	for i := 0; i <= 300; i++ {
		lengths = append(lengths, i)
	}
	for i := 65530; i <= 65540; i++ {
		lengths = append(lengths, i)
	}
	for _, n := range lengths {
		s := strings.Repeat("k", n)
		cases = append(cases, val.MkString(s), val.MkBytes([]byte(s)))
		items := make([]val.V, n)
		ents := make([]val.Ent, n)
		for i := range items {
			items[i] = val.MkInt(int64(i % 7))
			// keys of mixed lengths, inserted in descending order
			ents[i] = val.Ent{K: fmt.Sprintf("%d", n-i), V: val.MkBool(i%2 == 0)}
		}
		cases = append(cases, val.V{K: val.List, Items: items}, val.V{K: val.Map, Ents: ents})
	}
	// wide, shallow lists whose elements are collections (nesting depth 2 whatever the width), around the
	// decoder's default depth limit of 1024 and beyond
	for _, n := range []int{1022, 1023, 1024, 1025, 1500, 3000} {
		maps := make([]val.V, n)
		mixed := make([]val.V, n)
		for i := range maps {
			maps[i] = val.V{K: val.Map, Ents: []val.Ent{}}
			mixed[i] = val.MkInt(int64(i))
		}
		mixed[n-1] = val.MkList(val.MkMap(val.Ent{K: "k", V: val.MkList()}))
		cases = append(cases, val.V{K: val.List, Items: maps}, val.V{K: val.List, Items: mixed})
		wide := make([]val.Ent, n)
		for i := range wide {
			wide[i] = val.Ent{K: fmt.Sprintf("k%04d", i), V: val.MkList(val.MkInt(int64(i)))}
		}
		cases = append(cases, val.V{K: val.Map, Ents: wide})
	}
	if evid.Thorough() {
		// the 4-byte / 8-byte length-head boundary, one 4 GiB string at a time and without keeping
		// the output (a counting writer): the head bytes, the total length and EncodedLength
		for _, n := range []int{1<<32 - 1, 1 << 32} {
			if err := c02HugeString(n); err != nil {
				evid.SaveFailure("C02", "encode", C02Case{V: val.MkString(fmt.Sprintf("<string of %d bytes>", n)), Impl: string(nodes.BasicAny)}, err)
				t.Fatalf("C02.table: %v", err)
			}
			rec.CaseCounted(true, "root:string", "length-head:2^32")
			runtime.GC()
			debug.FreeOSMemory()
		}
	}
	for i, v := range cases {
		impl := nodes.Impls[i%len(nodes.Impls)]
		if v.K == val.String && len(v.S) > 1<<20 {
			impl = nodes.BasicAny
		}
		c := C02Case{V: v, Impl: string(impl), Perm: []byte{byte(i), byte(i >> 8), 3, 1}, Prog: []byte{byte(i)}}
		if err := c02Check(c, rec); err != nil {
			if len(v.S) > 1<<20 {
				c.V = val.MkString(fmt.Sprintf("<string of %d bytes>", len(v.S)))
			}
			evid.SaveFailure("C02", "encode", c, err)
			t.Fatalf("C02.table case %d: %v", i, err)
		}
	}
}

type headCountWriter struct {
	head []byte
	n    int64
}

func (w *headCountWriter) Write(p []byte) (int, error) {
	if len(w.head) < 16 {
		k := 16 - len(w.head)
		if k > len(p) {
			k = len(p)
		}
		w.head = append(w.head, p[:k]...)
	}
	w.n += int64(len(p))
	return len(p), nil
}

func c02HugeString(n int) error {
	node := basicnode.NewString(strings.Repeat("z", n))
	var want []byte
	if n < 1<<32 {
		want = []byte{0x7a, byte(n >> 24), byte(n >> 16), byte(n >> 8), byte(n)}
	} else {
		want = []byte{0x7b, 0, 0, 0, byte(n >> 32), byte(n >> 24), byte(n >> 16), byte(n >> 8), byte(n)}
	}
	w := &headCountWriter{}
	if err := evid.Guard("dagcbor.Encode", func() error { return dagcbor.Encode(node, w) }); err != nil {
		return fmt.Errorf("encoding a string of %d bytes failed: %w", n, err)
	}
	if !bytes.HasPrefix(w.head, want) || w.n != int64(len(want)+n) {
		return fmt.Errorf("string of %d bytes: head %x and %d bytes in all, want head %x and %d bytes", n, w.head[:len(want)], w.n, want, len(want)+n)
	}
	l, err := dagcbor.EncodedLength(node)
	if err != nil || l != w.n {
		return fmt.Errorf("string of %d bytes: EncodedLength = %d (err %v), produced %d", n, l, err, w.n)
	}
	return nil
}

// TestC02_BadLinks: undefined CIDs and non-CID links must be refused, not emitted.
func TestC02_BadLinks(t *testing.T) {
	if evid.Shard() != 0 {
		t.Skip()
	}
	rec := evid.New("C02", "badlinks", "undefined CID and nil-CID links at root / in list / in map must make Encode fail; all non-trivial")
	defer rec.Flush()
	undef := basicnode.NewLink(cidlink.Link{Cid: cid.Undef})
	mk := func(shape int) datamodel.Node {
		switch shape {
		case 0:
			return undef
		case 1:
			nb := basicnode.Prototype.List.NewBuilder()
			la, _ := nb.BeginList(1)
			_ = la.AssembleValue().AssignNode(undef)
			_ = la.Finish()
			return nb.Build()
		default:
			nb := basicnode.Prototype.Map.NewBuilder()
			ma, _ := nb.BeginMap(1)
			va, _ := ma.AssembleEntry("a")
			_ = va.AssignNode(undef)
			_ = ma.Finish()
			return nb.Build()
		}
	}
	for shape := 0; shape < 3; shape++ {
		n := mk(shape)
		b, err := encDagCbor(n)
		if err == nil {
			c := map[string]any{"shape": shape, "bytes": fmt.Sprintf("%x", b)}
			evid.SaveFailure("C02", "badlinks", c, fmt.Errorf("undefined CID was encoded"))
			t.Fatalf("C02.badlinks: undefined CID encoded as %x", b)
		}
		if strings.HasPrefix(err.Error(), "PANIC") {
			evid.SaveFailure("C02", "badlinks", map[string]any{"shape": shape}, err)
			t.Fatalf("C02.badlinks: %v", err)
		}
		rec.Case(uint64(shape), true, "undefined-cid")
	}
	rec.Sample("undefined CID link at root, inside a list, inside a map: Encode must return an error")
}
