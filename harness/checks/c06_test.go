package checks

import (
	"bytes"
	"context"
	"encoding/json"
	"errors"
	"fmt"
	"io"
	"os"
	"strings"
	"testing"

	"github.com/ipfs/go-cid"
	"github.com/ipld/go-ipld-prime/datamodel"
	"github.com/ipld/go-ipld-prime/linking"
	cidlink "github.com/ipld/go-ipld-prime/linking/cid"
	"github.com/ipld/go-ipld-prime/node/basicnode"
	"github.com/ipld/go-ipld-prime/storage/memstore"
	"pgregory.net/rapid"

	"verif/evid"
	"verif/known"
	"verif/lk"
	"verif/nodes"
	"verif/refcbor"
	"verif/val"
)

// C06: no load returns data that does not hash to its link, whatever the storage does.

type C06Case struct {
	V     val.V  `json:"v"`
	LP    lk.LP  `json:"lp"`
	Other val.V  `json:"other"` // a second value of the same codec (block substitution)
	Tail  []byte `json:"tail"`  // random extension
	Chunk []byte `json:"chunk"` // random chunking pattern
}

var errInjected = errors.New("injected storage failure")

// faultReader serves data in the given chunk sizes and then either EOF or an injected error.
type faultReader struct {
	data     []byte
	chunks   []int // cyclic; empty = as much as asked
	ci       int
	failAt   int   // inject errInjected once this many bytes were delivered (-1: never)
	failWith error // the error to inject (errInjected when nil)
	eofWithN bool  // deliver the final bytes together with io.EOF
	pos      int
	// zeroAt > 0: when exactly this many bytes were delivered, one read returns (0, nil) — legal for an
	// io.Reader ("callers should treat a return of 0 and nil as indicating that nothing happened") — and
	// no read crosses that offset
	zeroAt   int
	zeroDone bool
	// zeroBurst: that many empty reads in a row there (0 = one)
	zeroBurst int
	zeroSeen  int
}

// idleBeforeEOF delivers its data and then answers `idle` reads with (0, nil) before io.EOF.
type idleBeforeEOF struct {
	data []byte
	pos  int
	idle int
}

func (r *idleBeforeEOF) Read(p []byte) (int, error) {
	if len(p) == 0 {
		return 0, nil
	}
	if r.pos >= len(r.data) {
		if r.idle > 0 {
			r.idle--
			return 0, nil
		}
		return 0, io.EOF
	}
	n := copy(p, r.data[r.pos:])
	r.pos += n
	return n, nil
}

// basicOnlyStore implements storage.ReadableStorage and nothing more.
type basicOnlyStore struct {
	bag     map[string][]byte
	failGet bool // Get returns the data together with an error
}

func (b *basicOnlyStore) Has(_ context.Context, key string) (bool, error) {
	_, ok := b.bag[key]
	return ok, nil
}

func (b *basicOnlyStore) Get(_ context.Context, key string) ([]byte, error) {
	v, ok := b.bag[key]
	if !ok {
		return nil, errors.New("basicOnlyStore: no such key")
	}
	if b.failGet {
		return append([]byte{}, v...), errInjected
	}
	return append([]byte{}, v...), nil
}

// closingReader is what a file-backed store hands out: an io.ReadCloser that refuses reads once it is closed.
type closingReader struct {
	io.Reader
	closed bool
}

func (r *closingReader) Read(p []byte) (int, error) {
	if r.closed {
		return 0, os.ErrClosed
	}
	return r.Reader.Read(p)
}

func (r *closingReader) Close() error {
	r.closed = true
	return nil
}

func (r *faultReader) Read(p []byte) (int, error) {
	if len(p) == 0 {
		return 0, nil
	}
	limit := len(r.data)
	if r.failAt >= 0 && r.failAt < limit {
		limit = r.failAt
	}
	if r.pos >= limit {
		if r.failAt >= 0 && r.pos >= r.failAt {
			if r.failWith != nil {
				return 0, r.failWith
			}
			return 0, errInjected
		}
		return 0, io.EOF
	}
	if r.zeroAt > 0 && r.pos == r.zeroAt && !r.zeroDone {
		r.zeroSeen++
		if r.zeroSeen > r.zeroBurst {
			r.zeroDone = true
		}
		return 0, nil
	}
	n := len(p)
	if len(r.chunks) > 0 {
		c := r.chunks[r.ci%len(r.chunks)]
		r.ci++
		if c < 1 {
			c = 1
		}
		if c < n {
			n = c
		}
	}
	if r.pos+n > limit {
		n = limit - r.pos
	}
	if r.zeroAt > 0 && !r.zeroDone && r.pos < r.zeroAt && r.pos+n > r.zeroAt {
		n = r.zeroAt - r.pos
	}
	copy(p, r.data[r.pos:r.pos+n])
	r.pos += n
	if r.pos >= limit && r.eofWithN && !(r.failAt >= 0) {
		return n, io.EOF
	}
	return n, nil
}

type c06Fault struct {
	// lenient: correct data delivered with a (0, nil) read in the middle. The property only forbids returning
	// unverified data; refmt's byte reader (a dependency) takes such a read for a zero byte and the decode fails,
	// which is a refused load of good data, not a breach: either outcome is accepted, wrong data never
	lenient bool
	class   string
	served  []byte // what storage delivers (complete)
	rd      func() io.Reader
	openEr  bool
	rdErr   bool // a read error is injected
	// reenter: layered storage — before it hands out its reader the opener loads another block (an index, say)
	// through the same link system
	reenter bool
}

// "Load/kind" and "Fill/kind" use a prototype of a kind the block's root does not have: the decode then fails
// with a wrong-kind error at once, which must still not take precedence over a hash mismatch
var c06Loaders = []string{"Load", "LoadRaw", "LoadPlusRaw", "Fill", "Load/kind", "Fill/kind"}

func c06Check(c C06Case, rec *evid.Rec) error {
	v, other := c.V, c.Other
	if known.Active("C04-integral-float") && (c.LP.Codec == lk.CodecDagJson || c.LP.Codec == lk.CodecJson) {
		v, _ = val.ShiftIntegralFloats(v)
		other, _ = val.ShiftIntegralFloats(other)
	}
	lsys := lk.LinkSystem(false)
	mem := &memstore.Store{Bag: map[string][]byte{}}
	lsys.SetReadStorage(mem)
	lsys.SetWriteStorage(mem)
	n, err := nodes.BuildDefault(v)
	if err != nil {
		return err
	}
	lnk, err := lsys.Store(linking.LinkContext{}, c.LP.Proto(), n)
	if err != nil {
		return fmt.Errorf("Store of %s with %s failed: %w", v.Short(200), c.LP, err)
	}
	block := mem.Bag[lnk.Binary()]
	if len(block) > 160 {
		// keep the enumeration complete and cheap: large blocks are outside this part's bound
		rec.Class("skipped:block>160B")
		return nil
	}
	expect := v
	if less := lk.CodecOrder(c.LP.Codec); less != nil {
		expect = v.SortKeys(less)
	}
	on, _ := nodes.BuildDefault(other)
	var otherBlock []byte
	var otherLnk datamodel.Link
	if ol, err := lsys.Store(linking.LinkContext{}, c.LP.Proto(), on); err == nil {
		otherBlock, otherLnk = mem.Bag[ol.Binary()], ol
	}

	var faults []c06Fault
	plain := func(b []byte) func() io.Reader { return func() io.Reader { return bytes.NewReader(b) } }
	for i := 0; i < len(block)*8; i++ {
		b := append([]byte{}, block...)
		b[i/8] ^= 1 << uint(i%8)
		faults = append(faults, c06Fault{class: "bitflip", served: b, rd: plain(b)})
	}
	for l := 0; l < len(block); l++ {
		b := append([]byte{}, block[:l]...)
		faults = append(faults, c06Fault{class: "truncate", served: b, rd: plain(b)})
	}
	// a truncated block whose reader idles (once, twice, five times in a row) before it reports the end
	for l := 1; l < len(block); l++ {
		b := append([]byte{}, block[:l]...)
		burst := []int{0, 1, 4}[l%3]
		faults = append(faults, c06Fault{class: "truncate+idle", served: b, rd: func() io.Reader { return &idleBeforeEOF{data: b, idle: burst + 1} }})
	}
	exts := [][]byte{{0x00}, {' '}, {'\n'}, {0xff}, append([]byte{}, block...), c.Tail, {' ', ' ', '\t', '\r', '\n'}}
	for _, e := range exts {
		if len(e) == 0 {
			continue
		}
		b := append(append([]byte{}, block...), e...)
		faults = append(faults, c06Fault{class: "extend", served: b, rd: plain(b)})
	}
	// an extended block delivered so that the decoder's own reads end exactly at the old end: chunk = block
	// length (with and without EOF riding on the last bytes), byte-wise, and with a (0, nil) read at the old end
	if len(block) > 0 {
		for _, e := range [][]byte{{0x00}, {' '}, append([]byte{}, block...), c.Tail} {
			if len(e) == 0 {
				continue
			}
			b := append(append([]byte{}, block...), e...)
			bl := len(block)
			for _, mk := range []func() io.Reader{
				func() io.Reader { return &faultReader{data: b, failAt: -1, chunks: []int{bl}} },
				func() io.Reader { return &faultReader{data: b, failAt: -1, chunks: []int{bl}, eofWithN: true} },
				func() io.Reader { return &faultReader{data: b, failAt: -1, chunks: []int{1}} },
				func() io.Reader { return &faultReader{data: b, failAt: -1, zeroAt: bl} },
				func() io.Reader { return &faultReader{data: b, failAt: -1, zeroAt: bl, chunks: []int{bl}} },
				func() io.Reader { return &faultReader{data: b, failAt: -1, zeroAt: bl, chunks: []int{1}} },
			} {
				faults = append(faults, c06Fault{class: "extend+chunking", served: b, rd: mk})
			}
		}
		// the correct block with a (0, nil) read after EVERY offset must load
		for k := 1; k <= len(block); k++ {
			k := k
			faults = append(faults, c06Fault{class: "zero-read", served: block, rd: func() io.Reader { return &faultReader{data: block, failAt: -1, zeroAt: k} }})
			// and with two and five empty reads in a row there
			faults = append(faults, c06Fault{class: "zero-read", served: block, rd: func() io.Reader { return &faultReader{data: block, failAt: -1, zeroAt: k, zeroBurst: 1 + 3*(k%2)} }})
		}
	}
	if otherBlock != nil && !bytes.Equal(otherBlock, block) {
		faults = append(faults, c06Fault{class: "substitute", served: otherBlock, rd: plain(otherBlock)})
	}
	faults = append(faults, c06Fault{class: "substitute", served: []byte{}, rd: plain([]byte{})})
	for k := 0; k <= len(block); k++ {
		k := k
		faults = append(faults, c06Fault{class: "readerror", rdErr: true, served: block[:k], rd: func() io.Reader { return &faultReader{data: block, failAt: k} }})
		// the error values readers of truncated / framed / cancelled streams really return
		for _, e := range []error{io.ErrUnexpectedEOF, io.ErrNoProgress, io.ErrClosedPipe, context.Canceled} {
			e := e
			faults = append(faults, c06Fault{class: "readerror", rdErr: true, served: block[:k], rd: func() io.Reader { return &faultReader{data: block, failAt: k, failWith: e} }})
		}
		if k > 0 && k%3 == 0 {
			faults = append(faults, c06Fault{class: "readerror", rdErr: true, served: block[:k], rd: func() io.Reader { return &faultReader{data: block, failAt: k, chunks: []int{1, 2}} }})
		}
	}
	for cs := 1; cs <= len(block); cs++ {
		cs := cs
		faults = append(faults, c06Fault{class: "chunking", served: block, rd: func() io.Reader { return &faultReader{data: block, failAt: -1, chunks: []int{cs}} }})
		faults = append(faults, c06Fault{class: "chunking", served: block, rd: func() io.Reader { return &faultReader{data: block, failAt: -1, chunks: []int{cs}, eofWithN: true} }})
	}
	if len(c.Chunk) > 0 {
		var ch []int
		for _, x := range c.Chunk {
			ch = append(ch, int(x%7)+1)
		}
		faults = append(faults, c06Fault{class: "chunking", served: block, rd: func() io.Reader { return &faultReader{data: block, failAt: -1, chunks: ch, eofWithN: len(ch)%2 == 0} }})
	}
	faults = append(faults, c06Fault{class: "openerror", openEr: true})
	if otherLnk != nil {
		// the opener itself loads through the link system before it answers: the good block must still load
		// (its hash is computed over its own bytes only) and a damaged one must still be refused
		faults = append(faults, c06Fault{class: "reentrant-opener", served: block, rd: plain(block), reenter: true})
		if len(block) > 0 {
			b := append([]byte{}, block...)
			b[0] ^= 0x10
			faults = append(faults, c06Fault{class: "reentrant-opener", served: b, rd: plain(b), reenter: true})
			bb := append(append([]byte{}, otherBlock...), block...)
			faults = append(faults, c06Fault{class: "reentrant-opener", served: bb, rd: plain(bb), reenter: true})
		}
	}

	// results of good loads are kept across everything that follows: what a load returned must still hash to
	// its link after any number of later loads (of other, damaged or failing data) through the same link system
	// a store of the plainest kind (Has and Get only, no streaming) attached with SetReadStorage: what it has
	// loads; what it does not have, or cannot read without an error, does not — not even when the link asked for is
	// the link of the empty block (which "no data" would hash to)
	{
		emptyLnk, eerr := lsys.ComputeLink(lk.LP{Version: 1, Codec: lk.CodecRaw, MhType: 0x12, MhLength: 32}.Proto(), basicnode.NewBytes([]byte{}))
		if eerr != nil {
			return eerr
		}
		for _, mode := range []string{"has-it", "absent", "absent-empty-block", "data-with-error"} {
			bs := &basicOnlyStore{bag: map[string][]byte{}}
			want := lnk
			switch mode {
			case "has-it":
				bs.bag[lnk.Binary()] = block
			case "absent-empty-block":
				want = emptyLnk
			case "data-with-error":
				bs.bag[lnk.Binary()] = block
				bs.failGet = true
			}
			ls := cidlink.DefaultLinkSystem()
			ls.SetReadStorage(bs)
			for _, loader := range []string{"Load", "LoadRaw", "LoadPlusRaw", "Fill"} {
				lctx := linking.LinkContext{Ctx: context.Background()}
				err := evid.Guard(loader, func() error {
					var e error
					switch loader {
					case "Load":
						_, e = ls.Load(lctx, want, basicnode.Prototype.Any)
					case "LoadRaw":
						_, e = ls.LoadRaw(lctx, want)
					case "LoadPlusRaw":
						_, _, e = ls.LoadPlusRaw(lctx, want, basicnode.Prototype.Any)
					default:
						e = ls.Fill(lctx, want, basicnode.Prototype.Any.NewBuilder())
					}
					return e
				})
				if mode == "has-it" && err != nil {
					return fmt.Errorf("%s from a Has/Get-only store holding block %x (%s) failed: %v", loader, block, c.LP, err)
				}
				if mode != "has-it" && err == nil {
					return fmt.Errorf("%s from a Has/Get-only store (%s) reported success", loader, mode)
				}
				if err != nil && strings.HasPrefix(err.Error(), "PANIC") {
					return fmt.Errorf("%s from a Has/Get-only store (%s): %v", loader, mode, err)
				}
				rec.ClassN("fault:basic-store/"+mode, 1)
			}
		}
	}
	keptRaw, kerr := lsys.LoadRaw(linking.LinkContext{Ctx: context.Background()}, lnk)
	if kerr != nil {
		return fmt.Errorf("LoadRaw of the block just stored failed: %w", kerr)
	}
	keptNode, keptRaw2, kerr := lsys.LoadPlusRaw(linking.LinkContext{Ctx: context.Background()}, lnk, basicnode.Prototype.Any)
	if kerr != nil {
		return fmt.Errorf("LoadPlusRaw of the block just stored failed: %w", kerr)
	}
	var wrongProto datamodel.NodePrototype = basicnode.Prototype.String
	if expect.K == val.String {
		wrongProto = basicnode.Prototype.List
	}
	blockHash := val.HashBytes(append(append([]byte{}, block...), c.LP.String()...))
	for fi, f := range faults {
		f := f
		legit := false
		if !f.openEr && !f.rdErr {
			ok, err := lk.DigestOK(lnk.Binary(), f.served)
			if err != nil {
				return err
			}
			legit = ok
		}
		for li, loader := range c06Loaders {
			ls := lsys
			ls.StorageReadOpener = func(linking.LinkContext, datamodel.Link) (io.Reader, error) {
				if f.openEr {
					return nil, errInjected
				}
				if f.reenter {
					if inner, ierr := lsys.LoadRaw(linking.LinkContext{Ctx: context.Background()}, otherLnk); ierr != nil || !bytes.Equal(inner, otherBlock) {
						return nil, fmt.Errorf("harness: the inner load of the layered opener failed: %v", ierr)
					}
				}
				if (fi+li)%2 == 1 {
					return &closingReader{Reader: f.rd()}, nil
				}
				return f.rd(), nil
			}
			var got datamodel.Node
			var raw []byte
			lctx := linking.LinkContext{Ctx: context.Background()}
			err := evid.Guard(loader, func() error {
				var e error
				switch loader {
				case "Load":
					got, e = ls.Load(lctx, lnk, basicnode.Prototype.Any)
				case "LoadRaw":
					raw, e = ls.LoadRaw(lctx, lnk)
				case "LoadPlusRaw":
					got, raw, e = ls.LoadPlusRaw(lctx, lnk, basicnode.Prototype.Any)
				case "Load/kind":
					got, e = ls.Load(lctx, lnk, wrongProto)
				case "Fill/kind":
					nb := wrongProto.NewBuilder()
					e = ls.Fill(lctx, lnk, nb)
					if e == nil {
						got = nb.Build()
					}
				default:
					nb := basicnode.Prototype.Any.NewBuilder()
					e = ls.Fill(lctx, lnk, nb)
					if e == nil {
						got = nb.Build()
					}
				}
				return e
			})
			where := fmt.Sprintf("%s with fault %s#%d on block %x (%s)", loader, f.class, fi, block, c.LP)
			if err != nil && len(err.Error()) > 5 && err.Error()[:5] == "PANIC" {
				return fmt.Errorf("%s: %v", where, err)
			}
			switch {
			case f.openEr || f.rdErr:
				if err == nil {
					return fmt.Errorf("%s: storage failed after %d bytes but the load reported success", where, len(f.served))
				}
				if got != nil || raw != nil {
					return fmt.Errorf("%s: a failed load still returned data", where)
				}
			case !legit:
				var hm linking.ErrHashMismatch
				if err == nil {
					return fmt.Errorf("%s: served bytes %x do not hash to the link, yet the load succeeded", where, f.served)
				}
				if !errors.As(err, &hm) {
					return fmt.Errorf("%s: served bytes %x do not hash to the link; want ErrHashMismatch, got %T: %v", where, f.served, err, err)
				}
				if got != nil || raw != nil {
					return fmt.Errorf("%s: hash mismatch reported but data was returned as well", where)
				}
			case bytes.Equal(f.served, block) && strings.HasSuffix(loader, "/kind"):
				// good data into a builder of another kind: refused for its kind (any error but a hash mismatch)
				var hm linking.ErrHashMismatch
				if err == nil || errors.As(err, &hm) {
					return fmt.Errorf("%s: good data loaded into a builder of another kind gave %v", where, err)
				}
			case bytes.Equal(f.served, block):
				if err != nil && f.lenient {
					if got != nil || raw != nil {
						return fmt.Errorf("%s: a failed load still returned data", where)
					}
					rec.Class("zero-read:refused")
					break
				}
				if err != nil {
					return fmt.Errorf("%s: correct data in another chunking was refused: %v", where, err)
				}
				if loader != "LoadRaw" {
					gv, rerr := nodes.Read(got)
					if rerr != nil || !val.Equal(gv, expect, val.Ordered) {
						return fmt.Errorf("%s: loaded %s, want %s (%v)", where, gv.Short(200), expect.Short(200), rerr)
					}
				}
				if (loader == "LoadRaw" || loader == "LoadPlusRaw") && !bytes.Equal(raw, block) {
					return fmt.Errorf("%s: raw bytes %x, want %x", where, raw, block)
				}
			default:
				// different bytes with the same (truncated) digest: legitimate data for this link;
				// nothing to assert beyond "no hash mismatch error"
				var hm linking.ErrHashMismatch
				if errors.As(err, &hm) {
					return fmt.Errorf("%s: bytes that do hash to the link were refused with ErrHashMismatch", where)
				}
				rec.Class("digest-collision")
			}
			rec.CaseCounted(false, "fault:"+f.class)
			_ = li
		}
	}
	if !bytes.Equal(keptRaw, block) || !bytes.Equal(keptRaw2, block) {
		return fmt.Errorf("raw bytes returned by an earlier LoadRaw / LoadPlusRaw of block %x changed after later loads: now %x / %x", block, keptRaw, keptRaw2)
	}
	if kv, rerr := nodes.Read(keptNode); rerr != nil || !val.Equal(kv, expect, val.Ordered) {
		return fmt.Errorf("the node returned by an earlier LoadPlusRaw of block %x changed after later loads: %s (err %v)", block, val.Diff(kv, expect), rerr)
	}
	for _, cl := range []string{"bitflip", "truncate", "extend", "extend+chunking", "zero-read", "substitute", "readerror", "chunking", "openerror"} {
		for _, l := range c06Loaders {
			rec.Case(val.HashBytes([]byte(fmt.Sprintf("%x|%s|%s", blockHash, cl, l))), true)
		}
	}
	rec.ClassN("blocks", 1)
	rec.Class(fmt.Sprintf("codec:0x%x", c.LP.Codec))
	if rec.WantSample() {
		rec.Sample(map[string]any{"value": v.String(), "lp": c.LP.String(), "block": fmt.Sprintf("%x", block), "faults_enumerated": len(faults), "loaders": c06Loaders})
	}
	return nil
}

func drawC06LP(t *rapid.T) lk.LP {
	h := rapid.SampledFrom(lk.Hashes).Draw(t, "hash")
	lp := lk.LP{Version: 1, Codec: rapid.SampledFrom(lk.Codecs).Draw(t, "codec"), MhType: h.Code, MhLength: -1}
	if h.Size > 0 {
		switch rapid.IntRange(0, 3).Draw(t, "lenmode") {
		case 0:
			lp.MhLength = h.Size
		case 1:
			lp.MhLength = rapid.IntRange(1, h.Size-1).Draw(t, "trunc")
		case 2:
			lp.MhLength = rapid.IntRange(1, 2).Draw(t, "tiny")
		}
	}
	return lp
}

func drawSmallCodecValue(t *rapid.T, codec uint64, label string) val.V {
	if codec == lk.CodecRaw {
		return val.MkBytes(rapid.SliceOfN(rapid.Byte(), 0, 24).Draw(t, label))
	}
	p := lk.CodecProfile(codec)
	p.MaxDepth, p.MaxWidth = 2, 3
	return val.DrawV(t, &p, label)
}

var c06Part = evid.Part[C06Case]{
	Prop: "C06", Name: "loadfaults", Quick: 320, Thorough: 80000,
	Rule: "per drawn block (small value × 5 codecs × 10 hash functions incl. identity and 1-2 byte truncated digests; blocks ≤160 B): EVERY single-bit flip, EVERY truncation length, extensions (1 byte, whitespace, duplicate item, random tail; also delivered in chunks ending at the old end, byte-wise, and with a (0, nil) read at the old end), a (0, nil) read after EVERY offset of the correct block, substitution by another block / empty block, a read error after EVERY offset (an opaque error, io.ErrUnexpectedEOF, io.ErrNoProgress, io.ErrClosedPipe, context.Canceled), EVERY fixed chunk size with and without (n>0, EOF), a random chunking, an open error — each against Load, LoadRaw, LoadPlusRaw and Fill, and against Load / Fill with a prototype of another kind than the block's root (the wrong-kind error must not take precedence over a hash mismatch); evaluations counts every (fault, loader) execution; distinct_nontrivial counts (block, fault class, loader) triples, each class being enumerated completely for its block",
	Gen: func(t *rapid.T) C06Case {
		lp := drawC06LP(t)
		return C06Case{LP: lp, V: drawSmallCodecValue(t, lp.Codec, "v"), Other: drawSmallCodecValue(t, lp.Codec, "other"),
			Tail: rapid.SliceOfN(rapid.Byte(), 1, 6).Draw(t, "tail"), Chunk: rapid.SliceOfN(rapid.Byte(), 0, 8).Draw(t, "chunk")}
	},
	Check: c06Check,
}.Reg()

// TestC06_BigBlocks: the same guarantee for blocks far beyond the enumeration bound (1.5 MiB): damage near the
// start (so that the decoder fails with most of the block unread), in the middle and at the end, truncation and
// extension, against the four loaders and the two wrong-kind loaders; hash mismatch must win every time.
func TestC06_BigBlocks(t *testing.T) {
	if evid.Shard() != 0 {
		t.Skip()
	}
	rec := evid.New("C06", "bigblocks", "blocks of 1.5 MiB (dag-cbor, dag-json, raw): byte damage at offsets 0, 1, middle, last; truncation by 1 byte and to a quarter; extension by 1 byte and by 2 MiB; against Load, LoadRaw, LoadPlusRaw, Fill and Load / Fill into a prototype of another kind; every one must fail with ErrHashMismatch; enumerated completely")
	rec.Exhaustive()
	defer rec.Flush()
	if err := c06BigBlocks(rec); err != nil {
		evid.SaveFailure("C06", "bigblocks", map[string]any{"table": "bigblocks"}, err)
		t.Fatalf("C06.bigblocks: %v", err)
	}
}

func init() {
	evid.RegisterRaw("C06", "bigblocks", func(json.RawMessage) error { return c06BigBlocks(evid.New("C06", "bigblocks", "")) })
}

func c06BigBlocks(rec *evid.Rec) error {
	payload := bytes.Repeat([]byte("0123456789abcdef"), 3<<15) // 1.5 MiB
	for _, codec := range []uint64{lk.CodecDagCbor, lk.CodecDagJson, lk.CodecRaw} {
		lp := lk.LP{Version: 1, Codec: codec, MhType: 0x12, MhLength: -1}
		var v val.V = val.MkList(val.MkString("head"), val.MkBytes(payload), val.MkMap(val.Ent{K: "tail", V: val.MkInt(1)}))
		if codec == lk.CodecRaw {
			v = val.MkBytes(payload)
		}
		lsys := lk.LinkSystem(false)
		mem := &memstore.Store{Bag: map[string][]byte{}}
		lsys.SetReadStorage(mem)
		lsys.SetWriteStorage(mem)
		lnk, err := lsys.Store(linking.LinkContext{}, lp.Proto(), nodes.MustBuild(v))
		if err != nil {
			return fmt.Errorf("Store: %v", err)
		}
		block := mem.Bag[lnk.Binary()]
		var served [][]byte
		for _, off := range []int{0, 1, len(block) / 2, len(block) - 1} {
			b := append([]byte{}, block...)
			b[off] ^= 0x01
			served = append(served, b)
		}
		served = append(served, block[:len(block)-1], block[:len(block)/4], append(append([]byte{}, block...), 0x00), append(append([]byte{}, block...), make([]byte, 2<<20)...))
		wrongProto := datamodel.NodePrototype(basicnode.Prototype.String)
		for fi, b := range served {
			b := b
			ls := lsys
			ls.StorageReadOpener = func(linking.LinkContext, datamodel.Link) (io.Reader, error) { return bytes.NewReader(b), nil }
			for _, loader := range c06Loaders {
				lctx := linking.LinkContext{Ctx: context.Background()}
				err := evid.Guard(loader, func() error {
					var e error
					switch loader {
					case "Load":
						_, e = ls.Load(lctx, lnk, basicnode.Prototype.Any)
					case "LoadRaw":
						_, e = ls.LoadRaw(lctx, lnk)
					case "LoadPlusRaw":
						_, _, e = ls.LoadPlusRaw(lctx, lnk, basicnode.Prototype.Any)
					case "Load/kind":
						_, e = ls.Load(lctx, lnk, wrongProto)
					case "Fill/kind":
						e = ls.Fill(lctx, lnk, wrongProto.NewBuilder())
					default:
						e = ls.Fill(lctx, lnk, basicnode.Prototype.Any.NewBuilder())
					}
					return e
				})
				var hm linking.ErrHashMismatch
				if err == nil || !errors.As(err, &hm) {
					return fmt.Errorf("%s of a %d-byte block (codec 0x%x) served with damage #%d (%d bytes): want ErrHashMismatch, got %v", loader, len(block), codec, fi, len(b), err)
				}
				rec.CaseCounted(true, "loader:"+loader)
			}
		}
	}
	return nil
}

func TestC06_LoadFaults(t *testing.T) { c06Part.Run(t) }

// ---------------------------------------------------------------------------------------
// store side: a failing encoder or writer never commits a block

type C06StoreCase struct {
	V      val.V `json:"v"`
	LP     lk.LP `json:"lp"`
	FailAt int   `json:"fail_at"` // writer fails once this many bytes were accepted (-1: encoder-side failure)
	Short  bool  `json:"short"`   // the failing write accepts part of its input
	// Recovers: the writer fails once (at FailAt) and accepts everything afterwards
	Recovers bool `json:"recovers,omitempty"`
	Poison   int  `json:"poison"` // which encoder-side failure
}

type failWriter struct {
	limit int
	short bool
	n     int
	// recovers: the failure happens once; later writes are accepted again
	recovers bool
	failed   bool
}

func (w *failWriter) Write(p []byte) (int, error) {
	if w.n+len(p) <= w.limit || (w.recovers && w.failed) {
		w.n += len(p)
		return len(p), nil
	}
	w.failed = true
	k := 0
	if w.short {
		k = w.limit - w.n
		w.n += k
	}
	return k, errInjected
}

func c06StoreCheck(c C06StoreCase, rec *evid.Rec) error {
	v := c.V
	if known.Active("C04-integral-float") && (c.LP.Codec == lk.CodecDagJson || c.LP.Codec == lk.CodecJson) {
		v, _ = val.ShiftIntegralFloats(v)
	}
	lsys := lk.LinkSystem(false)
	n, err := nodes.BuildDefault(v)
	if err != nil {
		return err
	}
	var full bytes.Buffer
	committed := 0
	lsys.StorageWriteOpener = func(linking.LinkContext) (io.Writer, linking.BlockWriteCommitter, error) {
		return &full, func(datamodel.Link) error { committed++; return nil }, nil
	}
	if _, err := lsys.Store(linking.LinkContext{}, c.LP.Proto(), n); err != nil || committed != 1 {
		return fmt.Errorf("plain Store failed: %v (commits %d)", err, committed)
	}
	// what a fault-free Store writes does not depend on earlier Stores that failed (in this process: the
	// previous cases): for dag-cbor it is the reference encoding
	if c.LP.Codec == lk.CodecDagCbor {
		if ref, rerr := refcbor.Encode(v); rerr == nil && !bytes.Equal(ref, full.Bytes()) {
			return fmt.Errorf("a fault-free Store (after earlier failed ones in this process) wrote %s, the canonical encoding is %s", clip(full.Bytes()), clip(ref))
		}
	}
	// a commit that fails, and a write opener that fails, must make Store fail (never a link for a block that
	// is not there)
	lsys.StorageWriteOpener = func(linking.LinkContext) (io.Writer, linking.BlockWriteCommitter, error) {
		return &bytes.Buffer{}, func(datamodel.Link) error { return errInjected }, nil
	}
	if l, err := lsys.Store(linking.LinkContext{}, c.LP.Proto(), n); err == nil {
		return fmt.Errorf("Store (%s) returned link %v with a nil error although the storage's commit failed", c.LP, l)
	}
	lsys.StorageWriteOpener = func(linking.LinkContext) (io.Writer, linking.BlockWriteCommitter, error) {
		return nil, nil, errInjected
	}
	if l, err := lsys.Store(linking.LinkContext{}, c.LP.Proto(), n); err == nil {
		return fmt.Errorf("Store (%s) returned link %v with a nil error although the storage could not be opened for writing", c.LP, l)
	}
	size := full.Len()
	class := ""
	var node datamodel.Node = n
	var w io.Writer
	if c.FailAt >= 0 && size > 0 {
		at := c.FailAt % size
		w = &failWriter{limit: at, short: c.Short, recovers: c.Recovers}
		class = "writer-fails"
	} else {
		w = &bytes.Buffer{}
		class = "encoder-fails"
		// a value the codec cannot encode, nested inside a list after a valid element
		var bad datamodel.Node
		switch c.Poison % 3 {
		case 0:
			bad = basicnode.NewLink(cidlink.Link{Cid: cid.Undef})
		case 1:
			if c.LP.Codec == lk.CodecJson {
				bad = basicnode.NewBytes([]byte{1, 2, 3})
			} else {
				bad = basicnode.NewLink(cidlink.Link{Cid: cid.Undef})
			}
		default:
			if c.LP.Codec == lk.CodecCbor || c.LP.Codec == lk.CodecJson {
				l, _ := nodes.MkLink(val.MakeCidV1(0x55, 0x12, bytes.Repeat([]byte{7}, 32)))
				bad = basicnode.NewLink(l)
			} else {
				bad = basicnode.NewLink(cidlink.Link{Cid: cid.Undef})
			}
		}
		if c.LP.Codec == lk.CodecRaw {
			node = basicnode.NewString("not bytes") // raw can only encode bytes
		} else {
			nb := basicnode.Prototype.List.NewBuilder()
			la, _ := nb.BeginList(2)
			_ = la.AssembleValue().AssignNode(n)
			_ = la.AssembleValue().AssignNode(bad)
			_ = la.Finish()
			node = nb.Build()
		}
	}
	committed = 0
	lsys.StorageWriteOpener = func(linking.LinkContext) (io.Writer, linking.BlockWriteCommitter, error) {
		return w, func(datamodel.Link) error { committed++; return nil }, nil
	}
	var lnk datamodel.Link
	err = evid.Guard("Store", func() error { var e error; lnk, e = lsys.Store(linking.LinkContext{}, c.LP.Proto(), node); return e })
	if err == nil {
		return fmt.Errorf("Store (%s, %s) reported success (link %v) although encoding/writing failed", class, c.LP, lnk)
	}
	if len(err.Error()) > 5 && err.Error()[:5] == "PANIC" {
		return fmt.Errorf("Store (%s): %v", class, err)
	}
	if committed != 0 {
		return fmt.Errorf("Store (%s, %s) failed with %v but the block was committed", class, c.LP, err)
	}
	rec.Case(val.HashBytes([]byte(fmt.Sprintf("%x|%s|%d|%v|%v|%d", full.Bytes(), c.LP, c.FailAt, c.Short, c.Recovers, c.Poison))), true, class)
	if rec.WantSample() {
		rec.Sample(map[string]any{"value": v.String(), "lp": c.LP.String(), "class": class, "fail_after_bytes": c.FailAt, "block_size": size})
	}
	return nil
}

var c06Store = evid.Part[C06StoreCase]{
	Prop: "C06", Name: "storefaults", Quick: 1500, Thorough: 400000,
	Rule: "Store with a writer that fails after a drawn number of accepted bytes (0..size-1, with or without a short write, failing for good or once only), or with a node the codec cannot encode (undefined CID, bytes/links for codecs without them, non-bytes for raw) placed after a valid element; a spy committer must never be called and Store must return an error; a failing commit and a failing write opener must make Store fail as well; all cases non-trivial; distinct by (block, prototype, failure point)",
	Gen: func(t *rapid.T) C06StoreCase {
		lp := drawC06LP(t)
		c := C06StoreCase{LP: lp, V: drawSmallCodecValue(t, lp.Codec, "v"), FailAt: -1, Poison: rapid.IntRange(0, 2).Draw(t, "poison")}
		if rapid.IntRange(0, 2).Draw(t, "writerfault") > 0 {
			c.FailAt = rapid.IntRange(0, 200).Draw(t, "failat")
			c.Short = rapid.Bool().Draw(t, "short")
			c.Recovers = rapid.Bool().Draw(t, "recovers")
		}
		return c
	},
	Check: c06StoreCheck,
}.Reg()

func TestC06_StoreFaults(t *testing.T) { c06Store.Run(t) }
