package checks

import (
	"bytes"
	"context"
	"encoding/hex"
	"fmt"
	"io"
	"reflect"
	"runtime"
	"sync"
	"testing"
	"time"

	"github.com/ipld/go-ipld-prime/codec/dagcbor"
	"github.com/ipld/go-ipld-prime/codec/dagjson"
	"github.com/ipld/go-ipld-prime/datamodel"
	"github.com/ipld/go-ipld-prime/linking"
	"github.com/ipld/go-ipld-prime/multicodec"
	"github.com/ipld/go-ipld-prime/node/basicnode"
	"github.com/ipld/go-ipld-prime/node/bindnode"
	"github.com/ipld/go-ipld-prime/node/gendemo"
	"github.com/ipld/go-ipld-prime/schema"
	"github.com/ipld/go-ipld-prime/traversal"
	"github.com/ipld/go-ipld-prime/traversal/selector"
	"pgregory.net/rapid"

	"verif/evid"
	"verif/graph"
	"verif/lk"
	"verif/nodes"
	"verif/refsel"
	"verif/selx"
	"verif/tschema"
	"verif/val"
)

// C20: shared immutable objects are safe to use from many goroutines at once.

type C20Case struct {
	Ops   [][]int `json:"ops"` // per goroutine: a sequence of operation codes
	Procs int     `json:"gomaxprocs"`
	Yield []int   `json:"yield"` // Gosched after these step numbers
}

type c20Shared struct {
	nodes        []datamodel.Node // shared finished nodes of several implementations (and views)
	nodeVals     []val.V          // what each reads as (typed reader where needed)
	typed        []bool
	cbor         [][]byte // expected dag-cbor of nodes that are encodable (nil otherwise)
	bytesN       []datamodel.Node
	bytesV       []string
	real         *graph.Real
	g            graph.Graph
	sel          selector.Selector
	specNode     datamodel.Node
	cfgNoChooser *traversal.Config
	cfgStart     *traversal.Config // fully populated, with a start-at path
	startVisits  int
	linkFree     datamodel.Node
	node0Visits  int
	linkRaw      []string
	sel2         selector.Selector
	visits2      int
	matches2     int
	cfg          *traversal.Config
	visits       int
	matches      int
	links        []datamodel.Link
	linkVals     []val.V
	schema       tschema.Schema
	ts           *schema.TypeSystem
	bproto       schema.TypedPrototype
	convNode     datamodel.Node // a bound value with a named converter: two schema types on one Go type
	tview        val.V
	rview        val.V
	gdProto      datamodel.NodePrototype
	gdVal        val.V
	lpLink       datamodel.Link
}

var (
	c20Once sync.Once
	c20S    *c20Shared
	c20Err  error
)

type C20Named struct {
	A int64
	S string
	L []string
}

const c20NumOps = 19

func c20Setup() (*c20Shared, error) {
	c20Once.Do(func() {
		s := &c20Shared{}
		add := func(n datamodel.Node, typed bool) error {
			r := nodes.Plain
			if typed {
				r = nodes.Reader{Typed: true}
			}
			v, err := r.Read(n)
			if err != nil {
				return err
			}
			s.nodes = append(s.nodes, n)
			s.nodeVals = append(s.nodeVals, v)
			s.typed = append(s.typed, typed)
			var enc []byte
			if !typed {
				enc, _ = encDagCbor(n)
			}
			s.cbor = append(s.cbor, enc)
			return nil
		}
		big := val.MkMap(val.Ent{K: "list", V: val.MkList(val.MkInt(1), val.MkString("two"), val.MkFloat(3.5), val.MkBytes([]byte{4}), val.MkNull(), val.MkBool(true))},
			val.Ent{K: "map", V: val.MkMap(val.Ent{K: "b", V: val.MkInt(2)}, val.Ent{K: "a", V: val.MkList()}, val.Ent{K: "ccc", V: val.MkMap()})},
			val.Ent{K: "link", V: val.MkLink(val.MakeCidV1(0x71, 0x12, bytes.Repeat([]byte{9}, 32)))}, val.Ent{K: "s", V: val.MkString("héllo")})
		for _, impl := range nodes.Impls {
			n, err := nodes.Build(big, nil, nodes.ProtoFor(impl, big.K))
			if err != nil {
				c20Err = err
				return
			}
			if err := add(n, false); err != nil {
				c20Err = err
				return
			}
		}
		// typed: bindnode struct with optional/nullable fields, a union, a typed map
		s.schema = tschema.Schema{Types: []tschema.TypeSpec{
			{Name: "T0", Kind: "struct", Repr: "tuple", Fields: []tschema.FieldSpec{{Name: "fa", Type: "Int"}, {Name: "fb", Type: "String", Optional: true}}},
			{Name: "T1", Kind: "union", Repr: "keyed", Members: []tschema.MemberSpec{{Type: "T0", Discr: "d0"}, {Type: "String", Discr: "d1"}}},
			{Name: "T2", Kind: "map", Elem: "T1", ElemNullable: true},
			{Name: "T5", Kind: "struct", Repr: "stringjoin", Delim: "-", Fields: []tschema.FieldSpec{{Name: "a", Type: "String"}, {Name: "b", Type: "String"}}},
			{Name: "T4", Kind: "union", Repr: "stringprefix", Delim: ":", Members: []tschema.MemberSpec{{Type: "String", Discr: "tok"}, {Type: "T5", Discr: "pair"}}},
			{Name: "T6", Kind: "union", Repr: "kinded", Members: []tschema.MemberSpec{{Type: "Int"}, {Type: "T5"}}},
			{Name: "T3", Kind: "struct", Repr: "map", Fields: []tschema.FieldSpec{{Name: "fa", Type: "T2"}, {Name: "fb", Type: "T0", Nullable: true}, {Name: "fc", Type: "Bytes", Optional: true, Rename: "r"},
				{Name: "fd", Type: "T4"}, {Name: "fe", Type: "T4"}, {Name: "ff", Type: "T6"}}},
			{Name: "C20W", Kind: "struct", Repr: "map", Fields: []tschema.FieldSpec{{Name: "s", Type: "String"}}},
		}}
		ts, err := s.schema.Build()
		if err != nil {
			c20Err = err
			return
		}
		s.ts = ts
		s.bproto = bindnode.Prototype(nil, ts.TypeByName("T3"))
		// two schema types bound to the Go type string, one of them (HexString) with a converter registered under
		// its name: the value is wrapped once and shared
		{
			cts := schema.TypeSystem{}
			cts.Init()
			cts.Accumulate(schema.SpawnString("String"))
			cts.Accumulate(schema.SpawnString("HexString"))
			cts.Accumulate(schema.SpawnStruct("Conv", []schema.StructField{
				schema.SpawnStructField("hex", "HexString", false, false),
				schema.SpawnStructField("plain", "String", false, false),
				schema.SpawnStructField("hex2", "HexString", false, false),
			}, schema.SpawnStructRepresentationMap(nil)))
			if errs := cts.ValidateGraph(); len(errs) > 0 {
				c20Err = fmt.Errorf("converter schema: %v", errs)
				return
			}
			opt := bindnode.NamedStringConverter("HexString",
				func(x string) (interface{}, error) {
					b, err := hex.DecodeString(x)
					str := string(b)
					return &str, err
				},
				func(x interface{}) (string, error) { return hex.EncodeToString([]byte(*x.(*string))), nil })
			s.convNode = bindnode.Wrap(&C20Conv{Hex: "abc", Plain: "abc", Hex2: "xyz"}, cts.TypeByName("Conv"), opt)
		}
		tv := tschema.TV{K: "struct", Items: []tschema.TV{
			{K: "map", Keys: []string{"k", "z"}, Items: []tschema.TV{{K: "union", Member: 0, Items: []tschema.TV{{K: "struct", Items: []tschema.TV{{K: "scalar", V: val.MkInt(7)}, {K: "absent"}}}}}, {K: "null"}}},
			{K: "null"}, {K: "scalar", V: val.MkBytes([]byte("xyz"))},
			{K: "union", Member: 0, Items: []tschema.TV{{K: "scalar", V: val.MkString("abc")}}},
			{K: "union", Member: 1, Items: []tschema.TV{{K: "struct", Items: []tschema.TV{{K: "scalar", V: val.MkString("l")}, {K: "scalar", V: val.MkString("r")}}}}},
			{K: "union", Member: 1, Items: []tschema.TV{{K: "struct", Items: []tschema.TV{{K: "scalar", V: val.MkString("p")}, {K: "scalar", V: val.MkString("q")}}}}}}}
		s.tview = tschema.TypeView(&s.schema, "T3", tv)
		s.rview, _ = tschema.ReprView(&s.schema, "T3", tv)
		tn, err := nodes.Build(s.tview, nil, s.bproto)
		if err != nil {
			c20Err = err
			return
		}
		if err := add(tn, true); err != nil {
			c20Err = err
			return
		}
		if err := add(tn.(schema.TypedNode).Representation(), false); err != nil {
			c20Err = err
			return
		}
		// the field nodes themselves, looked up once and then shared (a lookup on a bound node hands out a new
		// node object every time, so sharing the parent alone does not share these), with their representations
		for it := tn.MapIterator(); !it.Done(); {
			_, child, err := it.Next()
			if err != nil {
				c20Err = err
				return
			}
			ctn, isTyped := child.(schema.TypedNode)
			if !isTyped || child.IsNull() || child.IsAbsent() {
				continue
			}
			if err := add(child, true); err != nil {
				c20Err = err
				return
			}
			if err := add(ctn.Representation(), false); err != nil {
				c20Err = err
				return
			}
		}
		// generated code: gendemo's typed map of structs
		s.gdProto = gendemo.Type.Map__String__Msg3
		s.gdVal = val.MkMap(val.Ent{K: "a", V: val.MkMap(val.Ent{K: "whee", V: val.MkInt(1)}, val.Ent{K: "woot", V: val.MkInt(2)}, val.Ent{K: "waga", V: val.MkInt(3)})},
			val.Ent{K: "b", V: val.MkMap(val.Ent{K: "whee", V: val.MkInt(4)}, val.Ent{K: "woot", V: val.MkInt(5)}, val.Ent{K: "waga", V: val.MkInt(6)})})
		gn, err := nodes.Build(s.gdVal, nil, s.gdProto)
		if err != nil {
			c20Err = err
			return
		}
		if err := add(gn, true); err != nil {
			c20Err = err
			return
		}
		if err := add(gn.(schema.TypedNode).Representation(), false); err != nil {
			c20Err = err
			return
		}
		// bytes nodes, incl. a reader-backed one
		content := "0123456789abcdefghijklmnopqrstuvwxyz"
		s.bytesN = []datamodel.Node{basicnode.NewBytes([]byte(content)), basicnode.NewBytesFromReader(bytes.NewReader([]byte(content)))}
		s.bytesV = []string{content, content}
		// a linked graph, a compiled selector, a shared configuration
		b0 := val.MkMap(val.Ent{K: "leaf", V: val.MkList(val.MkInt(1), val.MkString("abc"))})
		b1 := val.MkMap(val.Ent{K: "a", V: val.MkLink(graph.CidOf(b0))}, val.Ent{K: "b", V: val.MkLink(graph.CidOf(b0))})
		s.g = graph.Graph{Blocks: []val.V{b0, b1}, Root: val.MkMap(val.Ent{K: "x", V: val.MkLink(graph.CidOf(b1))}, val.Ent{K: "y", V: val.MkList(val.MkLink(graph.CidOf(b0)), val.MkInt(5))})}
		s.real, err = graph.Realise(s.g, nil)
		if err != nil {
			c20Err = err
			return
		}
		// the shared link system must not log loads into a shared slice: plain storage
		s.real.LSys.StorageReadOpener = func(lc linking.LinkContext, l datamodel.Link) (io.Reader, error) {
			return s.real.Mem.GetStream(context.Background(), l.Binary())
		}
		s.specNode = nodes.MustBuild(exploreAll.Spec())
		s.sel, err = selector.CompileSelector(s.specNode)
		if err != nil {
			c20Err = err
			return
		}
		s.cfg = selx.Config(s.real)
		s.cfgNoChooser = &traversal.Config{Ctx: context.Background()}
		{
			count := 0
			cfg := &traversal.Config{Ctx: context.Background()}
			s.linkFree = nodes.MustBuild(val.MkMap(val.Ent{K: "a", V: val.MkList(val.MkInt(1), val.MkInt(2), val.MkMap(val.Ent{K: "b", V: val.MkString("x")}))}, val.Ent{K: "c", V: val.MkNull()}))
			if err := (traversal.Progress{Cfg: cfg}).WalkAdv(s.linkFree, s.sel, func(traversal.Progress, datamodel.Node, traversal.VisitReason) error { count++; return nil }); err != nil {
				c20Err = fmt.Errorf("walk over the shared link-free node: %w", err)
				return
			}
			s.node0Visits = count
		}
		{
			// a shared, fully populated configuration (context and chooser set) that starts its walks at a path
			mk := func() *traversal.Config {
				cf := selx.Config(s.real)
				cf.Ctx = context.Background()
				cf.StartAtPath = datamodel.ParsePath("x/a/leaf/1")
				return cf
			}
			count := 0
			if err := (traversal.Progress{Cfg: mk()}).WalkAdv(s.real.Root, s.sel, func(traversal.Progress, datamodel.Node, traversal.VisitReason) error { count++; return nil }); err != nil {
				c20Err = fmt.Errorf("walk from a start path: %w", err)
				return
			}
			s.cfgStart, s.startVisits = mk(), count
		}
		ref := refsel.Walk(s.g, exploreAll)
		s.visits = len(ref.Visits)
		for _, v := range ref.Visits {
			if v.Reason == "m" {
				s.matches++
			}
		}
		// a second shared selector with every clause kind: a depth-limited recursion whose edge sits inside a
		// union (not as its last member) directly under explore-all, beside fields, index, range and subset matchers
		rich := refsel.Rec(3, refsel.All(refsel.Union(refsel.Edge(), refsel.Match(), refsel.Index(0, refsel.Match()), refsel.Range(0, 2, refsel.MatchSubset(1, 3)),
			refsel.Fields(refsel.Field{Name: "a", Sel: refsel.Match()}, refsel.Field{Name: "leaf", Sel: refsel.All(refsel.Match())}))))
		s.sel2, err = selx.CompileSpec(rich)
		if err != nil {
			c20Err = fmt.Errorf("rich selector: %w", err)
			return
		}
		ref2 := refsel.Walk(s.g, rich)
		s.visits2 = len(ref2.Visits)
		for _, v := range ref2.Visits {
			if v.Reason == "m" {
				s.matches2++
			}
		}
		for _, b := range s.g.Blocks {
			l, _ := lk.LinkOf(graph.CidOf(b))
			s.links = append(s.links, l)
			s.linkVals = append(s.linkVals, b.SortKeys(val.LessLenFirst))
			s.linkRaw = append(s.linkRaw, string(s.real.Mem.Bag[graph.CidOf(b)]))
		}
		s.lpLink, err = s.real.LSys.ComputeLink(graph.BlockLP.Proto(), s.nodes[0])
		if err != nil {
			c20Err = err
			return
		}
		c20S = s
	})
	return c20S, c20Err
}

// c20Do performs one read-only operation on the shared objects and checks its result against
// the sequentially computed expectation.
func c20Do(s *c20Shared, op, step, gid int) error {
	i := (step + gid) % len(s.nodes)
	switch op % c20NumOps {
	case 0: // full read
		r := nodes.Plain
		if s.typed[i] {
			r = nodes.Reader{Typed: true}
		}
		v, err := r.Read(s.nodes[i])
		if err != nil || !val.Equal(v, s.nodeVals[i], val.Ordered) {
			return fmt.Errorf("shared node %d read differently: %s (err %v)", i, val.Diff(v, s.nodeVals[i]), err)
		}
	case 1: // DeepEqual
		j := (i + 1) % 4
		if !datamodel.DeepEqual(s.nodes[i%4], s.nodes[j]) {
			return fmt.Errorf("DeepEqual of shared nodes %d and %d is false", i%4, j)
		}
	case 2: // Copy into a private builder
		if s.typed[i] {
			return nil
		}
		nb := basicnode.Prototype.Any.NewBuilder()
		if err := datamodel.Copy(s.nodes[i], nb); err != nil {
			return fmt.Errorf("Copy of shared node %d: %v", i, err)
		}
		v, _ := nodes.Read(nb.Build())
		if !val.Equal(v, s.nodeVals[i], val.Ordered) {
			return fmt.Errorf("Copy of shared node %d differs", i)
		}
	case 3: // encode
		if s.cbor[i] == nil {
			return nil
		}
		var buf bytes.Buffer
		if err := dagcbor.Encode(s.nodes[i], &buf); err != nil || !bytes.Equal(buf.Bytes(), s.cbor[i]) {
			return fmt.Errorf("dag-cbor of shared node %d differs (err %v)", i, err)
		}
		var jb bytes.Buffer
		if err := dagjson.Encode(s.nodes[i], &jb); err != nil {
			return fmt.Errorf("dag-json of shared node %d: %v", i, err)
		}
	case 4: // ComputeLink through the shared link system
		l, err := s.real.LSys.ComputeLink(graph.BlockLP.Proto(), s.nodes[0])
		if err != nil || l.Binary() != s.lpLink.Binary() {
			return fmt.Errorf("ComputeLink differs (err %v)", err)
		}
	case 5: // Load / LoadRaw
		k := step % len(s.links)
		n, err := s.real.LSys.Load(linking.LinkContext{}, s.links[k], basicnode.Prototype.Any)
		if err != nil {
			return fmt.Errorf("Load: %v", err)
		}
		v, _ := nodes.Read(n)
		if !val.Equal(v, s.linkVals[k], val.Ordered) {
			return fmt.Errorf("Load of block %d differs", k)
		}
		raw, err := s.real.LSys.LoadRaw(linking.LinkContext{}, s.links[k])
		if err != nil {
			return fmt.Errorf("LoadRaw: %v", err)
		}
		// the bytes are held across a load of another block (by this goroutine, and by whoever else is loading)
		k2 := (k + 1) % len(s.links)
		n2, raw2, err := s.real.LSys.LoadPlusRaw(linking.LinkContext{}, s.links[k2], basicnode.Prototype.Any)
		if err != nil {
			return fmt.Errorf("LoadPlusRaw: %v", err)
		}
		runtime.Gosched()
		if string(raw) != s.linkRaw[k] || string(raw2) != s.linkRaw[k2] {
			return fmt.Errorf("raw bytes returned by LoadRaw / LoadPlusRaw of blocks %d / %d changed while they were held", k, k2)
		}
		if v2, _ := nodes.Read(n2); !val.Equal(v2, s.linkVals[k2], val.Ordered) {
			return fmt.Errorf("LoadPlusRaw of block %d differs", k2)
		}
	case 6: // WalkAdv with the shared selector and configuration
		if step%3 == 2 {
			// a shared configuration that sets the context but leaves the prototype chooser to the default (legal
			// for link-free data), over a shared link-free node
			count := 0
			err := traversal.Progress{Cfg: s.cfgNoChooser}.WalkAdv(s.linkFree, s.sel, func(traversal.Progress, datamodel.Node, traversal.VisitReason) error { count++; return nil })
			if err != nil || count != s.node0Visits {
				return fmt.Errorf("WalkAdv over the shared link-free node made %d visits, want %d (err %v)", count, s.node0Visits, err)
			}
			if s.cfgNoChooser.LinkTargetNodePrototypeChooser != nil {
				return fmt.Errorf("a walk wrote a prototype chooser into the caller's shared Config")
			}
			return nil
		}
		if step%3 == 1 {
			count := 0
			err := traversal.Progress{Cfg: s.cfgStart}.WalkAdv(s.real.Root, s.sel, func(traversal.Progress, datamodel.Node, traversal.VisitReason) error { count++; return nil })
			if err != nil || count != s.startVisits {
				return fmt.Errorf("WalkAdv with the shared configuration that starts at %q made %d visits, want %d (err %v)", "x/a/leaf/1", count, s.startVisits, err)
			}
			if s.cfgStart.StartAtPath.String() != "x/a/leaf/1" {
				return fmt.Errorf("a walk changed the start path of the caller's shared Config to %q", s.cfgStart.StartAtPath.String())
			}
			return nil
		}
		count := 0
		sel, want := s.sel, s.visits
		if step%2 == 1 {
			sel, want = s.sel2, s.visits2
		}
		err := traversal.Progress{Cfg: s.cfg}.WalkAdv(s.real.Root, sel, func(traversal.Progress, datamodel.Node, traversal.VisitReason) error { count++; return nil })
		if err != nil || count != want {
			return fmt.Errorf("WalkAdv made %d visits, want %d (err %v)", count, want, err)
		}
	case 7: // WalkMatching and Get
		count := 0
		sel, want := s.sel, s.matches
		if step%2 == 1 {
			sel, want = s.sel2, s.matches2
		}
		err := traversal.Progress{Cfg: s.cfg}.WalkMatching(s.real.Root, sel, func(traversal.Progress, datamodel.Node) error { count++; return nil })
		if err != nil || count != want {
			return fmt.Errorf("WalkMatching matched %d, want %d (err %v)", count, want, err)
		}
		n, err := traversal.Progress{Cfg: s.cfg}.Get(s.real.Root, datamodel.ParsePath("x/a/leaf/1"))
		if err != nil {
			return fmt.Errorf("Get: %v", err)
		}
		if str, _ := n.AsString(); str != "abc" {
			return fmt.Errorf("Get returned %q", str)
		}
	case 8: // build fresh nodes from shared prototypes
		n, err := nodes.Build(s.tview, nil, s.bproto)
		if err != nil {
			return fmt.Errorf("build from the shared bindnode prototype: %v", err)
		}
		v, _ := nodes.Reader{Typed: true}.Read(n)
		if !val.Equal(v, s.tview, val.Ordered) {
			return fmt.Errorf("node built from the shared bindnode prototype differs")
		}
		n2, err := nodes.Build(s.rview, nil, s.bproto.Representation())
		if err != nil {
			return fmt.Errorf("build from the shared representation prototype: %v", err)
		}
		v2, _ := nodes.Reader{Typed: true}.Read(n2)
		if !val.Equal(v2, s.tview, val.Ordered) {
			return fmt.Errorf("node built from the shared representation prototype differs")
		}
	case 9: // generated-code prototype
		n, err := nodes.Build(s.gdVal, nil, s.gdProto)
		if err != nil {
			return fmt.Errorf("build from the shared generated prototype: %v", err)
		}
		v, _ := nodes.Reader{Typed: true}.Read(n)
		if !val.Equal(v, s.gdVal, val.Ordered) {
			return fmt.Errorf("node built from the shared generated prototype differs")
		}
	case 10: // new bindings from shared schema types
		st := s.ts.TypeByName("T0")
		p := bindnode.Prototype(nil, st)
		n, err := nodes.Build(val.MkMap(val.Ent{K: "fa", V: val.MkInt(int64(step))}), nil, p)
		if err != nil {
			return fmt.Errorf("Prototype(nil, shared type): %v", err)
		}
		if l := n.Length(); l != 2 {
			return fmt.Errorf("bound node length %d", l)
		}
		gt := reflect.TypeOf(bindnode.Unwrap(n)).Elem()
		fresh := reflect.New(gt)
		_ = bindnode.Wrap(fresh.Interface(), st)
	case 11: // bindings with an inferred schema for a named Go type
		x := C20Named{A: int64(step), S: "s", L: []string{"a"}}
		n := bindnode.Wrap(&x, nil)
		v, err := nodes.Reader{Typed: true}.Read(n)
		want := val.MkMap(val.Ent{K: "A", V: val.MkInt(int64(step))}, val.Ent{K: "S", V: val.MkString("s")}, val.Ent{K: "L", V: val.MkList(val.MkString("a"))})
		if err != nil || !val.Equal(v, want, val.Ordered) {
			return fmt.Errorf("Wrap with an inferred schema differs: %s (err %v)", val.Diff(v, want), err)
		}
		_ = bindnode.Prototype((*C20Named)(nil), nil)
	case 12: // registry look-ups
		for _, c := range lk.Codecs {
			if _, err := multicodec.LookupEncoder(c); err != nil {
				return err
			}
			if _, err := multicodec.LookupDecoder(c); err != nil {
				return err
			}
		}
		_ = multicodec.ListEncoders()
	case 13: // shared bytes nodes incl. the reader-backed one
		k := step % len(s.bytesN)
		b, err := s.bytesN[k].AsBytes()
		if err != nil || string(b) != s.bytesV[k] {
			return fmt.Errorf("shared bytes node %d reads %q (err %v)", k, b, err)
		}
		if lb, ok := s.bytesN[k].(datamodel.LargeBytesNode); ok {
			r, err := lb.AsLargeBytes()
			if err != nil {
				return err
			}
			want := s.bytesV[k]
			switch (step / len(s.bytesN)) % 4 {
			case 3: // copy the shared node into a bytes builder and read the copy while others read the original
				nb := basicnode.Prototype.Bytes.NewBuilder()
				if err := nb.AssignNode(s.bytesN[k]); err != nil {
					return fmt.Errorf("AssignNode of shared bytes node %d into a bytes builder: %v", k, err)
				}
				cp := nb.Build()
				for rep := 0; rep < 2; rep++ {
					got, err := cp.AsBytes()
					if err != nil || string(got) != want {
						return fmt.Errorf("copy of shared bytes node %d reads %q (err %v)", k, got, err)
					}
					if lbc, ok := cp.(datamodel.LargeBytesNode); ok {
						rc, err := lbc.AsLargeBytes()
						if err != nil {
							return err
						}
						all, err := io.ReadAll(rc)
						if err != nil || string(all) != want {
							return fmt.Errorf("copy of shared bytes node %d: AsLargeBytes reads %q (err %v)", k, all, err)
						}
					}
				}
			case 0:
				all, err := io.ReadAll(r)
				if err != nil || string(all) != want {
					return fmt.Errorf("shared bytes node %d AsLargeBytes reads %q (err %v)", k, all, err)
				}
			case 1: // size by seeking to the end, then the tail from an offset
				size, err := r.Seek(0, io.SeekEnd)
				if err != nil || size != int64(len(want)) {
					return fmt.Errorf("shared bytes node %d: Seek(0, SeekEnd) = %d, %v; want %d", k, size, err, len(want))
				}
				off := int64(step % (len(want) + 1))
				if _, err := r.Seek(off, io.SeekStart); err != nil {
					return err
				}
				tail, err := io.ReadAll(r)
				if err != nil || string(tail) != want[off:] {
					return fmt.Errorf("shared bytes node %d: tail from %d reads %q (err %v), want %q", k, off, tail, err, want[off:])
				}
			default: // what a subset matcher does: slice the shared node, read the slice twice
				from := int64(step % len(want))
				to := from + int64(1+step%7)
				if to > int64(len(want)) {
					to = int64(len(want))
				}
				sl := selector.Slice{From: from, To: to}
				sn, err := sl.Slice(s.bytesN[k])
				if err != nil || sn == nil {
					return fmt.Errorf("shared bytes node %d: Slice[%d,%d) = %v, %v", k, from, to, sn, err)
				}
				for rep := 0; rep < 2; rep++ {
					got, err := sn.AsBytes()
					if err != nil || string(got) != want[from:to] {
						return fmt.Errorf("shared bytes node %d: Slice[%d,%d) read %d gives %q (err %v), want %q", k, from, to, rep, got, err, want[from:to])
					}
				}
			}
		}
	case 14: // schema type methods
		st := s.ts.TypeByName("T3").(*schema.TypeStruct)
		for _, f := range st.Fields() {
			_ = f.Type().Name()
			_ = f.IsOptional()
		}
		_ = st.RepresentationStrategy()
		u := s.ts.TypeByName("T1").(*schema.TypeUnion)
		for _, m := range u.Members() {
			_ = m.TypeKind()
		}
		_ = s.ts.Names()
		if step%3 == 0 {
			// others take copies of the shared types (into type systems of their own); the shared ones stay as they are
			var mine schema.TypeSystem
			mine.Init()
			schema.MergeTypeSystem(&mine, s.ts, true)
			c := schema.Clone(st).(*schema.TypeStruct)
			if len(c.Fields()) != len(st.Fields()) {
				return fmt.Errorf("Clone of a shared struct type has %d fields, the original %d", len(c.Fields()), len(st.Fields()))
			}
		}
		for _, f := range st.Fields() {
			if f.Type() == nil || s.ts.TypeByName(f.Type().Name()) != f.Type() {
				return fmt.Errorf("field %s of shared type %s no longer resolves to its type in the shared type system", f.Name(), st.Name())
			}
		}
	case 16: // a binding call that inference refuses (by panicking): others' bindings must be unaffected, nothing may hang
		func() {
			defer func() { _ = recover() }()
			if step%2 == 0 {
				_ = bindnode.Wrap(&struct{ C complex128 }{}, nil)
			} else {
				_ = bindnode.Prototype((*struct{ Ch chan int })(nil), nil)
			}
		}()
	case 17: // the same (Go type, shared schema type) pair bound with and without a converter option
		// with the option the pair is compatible; without it Wrap refuses the pair (it panics): each caller gets
		// what it would get alone, whatever the others passed
		wt := s.ts.TypeByName("C20W")
		conv := bindnode.TypedStringConverter(&c20Ident{}, func(x string) (interface{}, error) { return &c20Ident{v: x}, nil },
			func(x interface{}) (string, error) { return x.(*c20Ident).v, nil })
		if step%2 == 0 {
			w := &C20W{S: c20Ident{v: "held"}}
			n := bindnode.Wrap(w, wt, conv)
			f, err := n.LookupByString("s")
			if err != nil {
				return err
			}
			if str, err := f.AsString(); err != nil || str != "held" {
				return fmt.Errorf("Wrap with a string converter reads %q (err %v)", str, err)
			}
		} else {
			refused := false
			func() {
				defer func() { refused = recover() != nil }()
				_ = bindnode.Wrap(&C20W{S: c20Ident{v: "held"}}, wt)
			}()
			if !refused {
				return fmt.Errorf("Wrap of a Go type that needs a converter succeeded without one (alone it is refused): another caller's options leaked")
			}
		}
	case 18: // fields of the shared value bound with a named converter: the converted and the plain one, in a drawn order
		order := []string{"hex", "plain", "hex2"}
		want := map[string]string{"hex": "616263", "plain": "abc", "hex2": "78797a"}
		for i := range order {
			name := order[(i+step)%3]
			f, err := s.convNode.LookupByString(name)
			if err != nil {
				return err
			}
			if str, err := f.AsString(); err != nil || str != want[name] {
				return fmt.Errorf("field %s of the shared value bound with a named converter reads %q (err %v), want %q", name, str, err, want[name])
			}
		}
		var buf bytes.Buffer
		if err := dagjson.Encode(s.convNode, &buf); err != nil || buf.String() != `{"hex":"616263","hex2":"78797a","plain":"abc"}` {
			return fmt.Errorf("dag-json of the shared value bound with a named converter: %s (err %v)", buf.String(), err)
		}
	case 15: // compile the shared selector spec again
		if _, err := selector.CompileSelector(s.specNode); err != nil {
			return err
		}
	}
	return nil
}

// C20Conv is bound to Conv {hex HexString, plain String, hex2 HexString}.
type C20Conv struct{ Hex, Plain, Hex2 string }

// C20W is bound to the schema type C20W {s String}: its field needs a string converter.
type C20W struct{ S c20Ident }
type c20Ident struct{ v string }

func c20Check(c C20Case, rec *evid.Rec) error {
	s, err := c20Setup()
	if err != nil {
		return fmt.Errorf("HARNESS: set-up failed: %v", err)
	}
	if c.Procs > 0 {
		defer runtime.GOMAXPROCS(runtime.GOMAXPROCS(c.Procs))
	}
	yield := map[int]bool{}
	for _, y := range c.Yield {
		yield[y] = true
	}
	var wg sync.WaitGroup
	errs := make([]error, len(c.Ops))
	start := make(chan struct{})
	for g, ops := range c.Ops {
		wg.Add(1)
		go func(g int, ops []int) {
			defer wg.Done()
			defer func() {
				if r := recover(); r != nil {
					errs[g] = fmt.Errorf("goroutine %d panicked: %v", g, r)
				}
			}()
			<-start
			for step, op := range ops {
				if err := c20Do(s, op, step, g); err != nil {
					errs[g] = fmt.Errorf("goroutine %d, step %d (op %d): %w", g, step, op%c20NumOps, err)
					return
				}
				if yield[step] {
					runtime.Gosched()
				}
			}
		}(g, ops)
	}
	close(start)
	done := make(chan struct{})
	go func() { wg.Wait(); close(done) }()
	select {
	case <-done:
	case <-time.After(180 * time.Second):
		return fmt.Errorf("the round did not terminate within 180 s: some goroutine is blocked (operations are all finite)")
	}
	for _, e := range errs {
		if e != nil {
			return e
		}
	}
	// non-trivial: ≥2 goroutines used the same operation class (hence the same shared objects)
	used := map[int]int{}
	for _, ops := range c.Ops {
		seen := map[int]bool{}
		for _, op := range ops {
			if !seen[op%c20NumOps] {
				seen[op%c20NumOps] = true
				used[op%c20NumOps]++
			}
		}
	}
	nt := false
	for _, k := range used {
		if k >= 2 {
			nt = true
		}
	}
	b, _ := jsonMarshal(c)
	rec.Case(val.HashBytes(b), nt && len(c.Ops) >= 2, fmt.Sprintf("goroutines:%d", len(c.Ops)/4*4))
	if rec.WantSample() && len(b) < 2000 {
		rec.Sample(c)
	}
	return nil
}

var c20Part = evid.Part[C20Case]{
	Prop: "C20", Name: "concurrent", Quick: 150, Thorough: 200000,
	Rule: "round: 2-24 goroutines each run a drawn sequence of ≤40 read-only operations on objects created once and shared (basicnode / bindnode / generated nodes with their representation views, plain and reader-backed bytes nodes, a compiled selector, a traversal configuration and link system over a read-only store, a type system, bindnode and generated prototypes, the default codec registry): full reads, DeepEqual, Copy, encode, ComputeLink, Load, LoadRaw, WalkAdv, WalkMatching, Get, building from shared prototypes, Wrap/Prototype with explicit and inferred schemas, registry look-ups, schema type methods, selector compilation, binding calls that inference refuses, Wrap of one (Go type, schema type) pair with and without the converter option it needs, reads and encodes of a shared value bound with a named converter (two schema types on one Go type); built with the race detector, varied GOMAXPROCS and injected Gosched; every result must equal the sequentially computed one; non-trivial = ≥2 goroutines performed the same class of operation on the shared objects; sampled schedules, distinct by the operation matrix",
	Gen: func(t *rapid.T) C20Case {
		g := rapid.IntRange(2, 24).Draw(t, "goroutines")
		c := C20Case{Procs: rapid.SampledFrom([]int{0, 1, 2, 4, 16}).Draw(t, "procs"), Yield: rapid.SliceOfN(rapid.IntRange(0, 39), 0, 8).Draw(t, "yield")}
		for i := 0; i < g; i++ {
			c.Ops = append(c.Ops, rapid.SliceOfN(rapid.IntRange(0, c20NumOps-1), 1, 40).Draw(t, "ops"))
		}
		return c
	},
	Check: c20Check,
}.Reg()

func TestC20_Concurrent(t *testing.T) { c20Part.Run(t) }
