package checks

import (
	"errors"
	"fmt"
	"strings"
	"testing"

	"github.com/ipld/go-ipld-prime/datamodel"
	"github.com/ipld/go-ipld-prime/node/basicnode"
	"github.com/ipld/go-ipld-prime/schema"
	"pgregory.net/rapid"

	"verif/evid"
	"verif/nodes"
	"verif/val"
)

// C12: assemblers enforce their protocol: duplicates rejected cleanly, results exact.

type C12Inj struct {
	At    int `json:"at"`    // which map (pre-order among maps)
	Pos   int `json:"pos"`   // before which entry (≥1)
	Style int `json:"style"` // 0 AssembleEntry, 1 key.AssignString, 2 key.AssignNode
	Which int `json:"which"` // which earlier key is repeated
}

type C12Case struct {
	V         val.V    `json:"v"`
	Prog      []byte   `json:"prog"`
	Impl      string   `json:"impl"`
	Inj       []C12Inj `json:"inj"`
	WrongKind int      `json:"wrong_kind"` // 0 none; otherwise selects a kind-inappropriate call made first on a fresh builder
	Reuse     bool     `json:"reuse"`
	V2        val.V    `json:"v2"`
}

func isRepeatedKeyErr(err error) bool {
	var rk datamodel.ErrRepeatedMapKey
	if errors.As(err, &rk) {
		return true
	}
	var rk2 *datamodel.ErrRepeatedMapKey
	if errors.As(err, &rk2) {
		return true
	}
	// the typed engines report a repeated struct field / map key through their own error types
	var sk schema.ErrNoSuchField
	_ = sk
	return false
}

type c12Asm struct {
	// deferredOK: the engine's key assembler cannot see its map (generated code: the key assembler is the
	// key type's own assembler and the map tidies up lazily), so the repeated-key error of the key-assembler
	// routes may surface from the first call on the value assembler instead of from the key assignment
	deferredOK bool
	prog       *nodes.Prog
	inj        map[int][]C12Inj
	mapIdx     int
	injected   int
	nested     int
}

func (a *c12Asm) assemble(na datamodel.NodeAssembler, v val.V, depth int) error {
	switch v.K {
	case val.Map:
		idx := a.mapIdx
		a.mapIdx++
		ma, err := na.BeginMap(int64(len(v.Ents)))
		if err != nil {
			return fmt.Errorf("BeginMap: %w", err)
		}
		inject := func(i int) error {
			for _, in := range a.inj[idx] {
				// before entry i; i == len(v.Ents): after the last entry, so that Finish is the very next call
				if (i < len(v.Ents) && in.Pos%max(len(v.Ents), 1) == i && i >= 1) || (i == len(v.Ents) && i >= 1 && (in.Pos+in.Which)%3 == 0) {
					dup := v.Ents[in.Which%i].K
					var rerr error
					how := ""
					switch in.Style % 3 {
					case 0:
						how = "AssembleEntry"
						_, rerr = ma.AssembleEntry(dup)
					case 1:
						how = "AssembleKey().AssignString"
						rerr = ma.AssembleKey().AssignString(dup)
					default:
						how = "AssembleKey().AssignNode"
						rerr = ma.AssembleKey().AssignNode(basicnode.NewString(dup))
					}
					if rerr == nil && a.deferredOK && in.Style%3 != 0 {
						how += " + AssembleValue().AssignNull"
						rerr = ma.AssembleValue().AssignNull()
					}
					if rerr == nil {
						return fmt.Errorf("%s accepted the repeated key %s (map #%d, before entry %d)", how, val.Txt(dup), idx, i)
					}
					if !isRepeatedKeyErr(rerr) {
						return fmt.Errorf("%s of the repeated key %s returned %T (%v), not a repeated-key error", how, val.Txt(dup), rerr, rerr)
					}
					a.injected++
					if depth >= 1 {
						a.nested++
					}
				}
			}
			return nil
		}
		for i, e := range v.Ents {
			if err := inject(i); err != nil {
				return err
			}
			var va datamodel.NodeAssembler
			switch a.prog.Next(3) {
			case 0:
				va, err = ma.AssembleEntry(e.K)
				if err != nil {
					return fmt.Errorf("AssembleEntry(%s) after a rejected key: %w", val.Txt(e.K), err)
				}
			case 1:
				if err := ma.AssembleKey().AssignString(e.K); err != nil {
					return fmt.Errorf("AssembleKey().AssignString(%s): %w", val.Txt(e.K), err)
				}
				va = ma.AssembleValue()
			default:
				if err := ma.AssembleKey().AssignNode(basicnode.NewString(e.K)); err != nil {
					return fmt.Errorf("AssembleKey().AssignNode(%s): %w", val.Txt(e.K), err)
				}
				va = ma.AssembleValue()
			}
			if err := a.assemble(va, e.V, depth+1); err != nil {
				return err
			}
		}
		if err := inject(len(v.Ents)); err != nil {
			return err
		}
		if err := ma.Finish(); err != nil {
			return fmt.Errorf("map Finish: %w", err)
		}
		return nil
	case val.List:
		la, err := na.BeginList(int64(len(v.Items)))
		if err != nil {
			return fmt.Errorf("BeginList: %w", err)
		}
		for _, it := range v.Items {
			if err := a.assemble(la.AssembleValue(), it, depth+1); err != nil {
				return err
			}
		}
		if err := la.Finish(); err != nil {
			return fmt.Errorf("list Finish: %w", err)
		}
		return nil
	}
	return nodes.Assemble(na, v, a.prog, depth)
}

// c12WrongKind makes one call of a kind the fresh builder cannot hold; it must return an
// error (not panic, not succeed).
func c12WrongKind(np datamodel.NodePrototype, root val.Kind, sel int) (string, error, bool) {
	nb := np.NewBuilder()
	type call struct {
		name string
		kind val.Kind
		f    func() error
	}
	lnk, _ := nodes.MkLink(val.MakeCidV1(0x55, 0x12, make([]byte, 32)))
	calls := []call{
		{"AssignNull", val.Null, func() error { return nb.AssignNull() }},
		{"AssignBool", val.Bool, func() error { return nb.AssignBool(true) }},
		{"AssignInt", val.Int, func() error { return nb.AssignInt(7) }},
		{"AssignFloat", val.Float, func() error { return nb.AssignFloat(1.5) }},
		{"AssignString", val.String, func() error { return nb.AssignString("s") }},
		{"AssignBytes", val.Bytes, func() error { return nb.AssignBytes([]byte{1}) }},
		{"AssignLink", val.Link, func() error { return nb.AssignLink(lnk) }},
		{"BeginMap", val.Map, func() error { _, e := nb.BeginMap(0); return e }},
		{"BeginList", val.List, func() error { _, e := nb.BeginList(0); return e }},
		{"AssignNode(int)", val.Int, func() error { return nb.AssignNode(basicnode.NewInt(1)) }},
		{"AssignNode(string)", val.String, func() error { return nb.AssignNode(basicnode.NewString("x")) }},
		{"AssignNode(map)", val.Map, func() error { return nb.AssignNode(nodes.MustBuild(val.MkMap())) }},
		{"AssignNode(list)", val.List, func() error { return nb.AssignNode(nodes.MustBuild(val.MkList())) }},
	}
	c := calls[sel%len(calls)]
	if c.kind == root {
		return c.name, nil, false
	}
	err := evid.Guard(c.name, c.f)
	return c.name, err, true
}

func c12Check(c C12Case, rec *evid.Rec) error {
	impl := nodes.Impl(c.Impl)
	np := nodes.ProtoFor(impl, c.V.K)
	kindSpecific := impl != nodes.BasicAny && (impl == nodes.BasicKind || c.V.K == val.Map || c.V.K == val.List) && c.V.K != val.Null && c.V.K != val.Uint
	cls := []string{"impl:" + c.Impl}
	if c.WrongKind > 0 && kindSpecific {
		name, err, applicable := c12WrongKind(np, c.V.K, c.WrongKind)
		if applicable {
			if err == nil {
				return fmt.Errorf("%s on a fresh %s builder for a %v root was accepted", name, impl, c.V.K)
			}
			if strings.HasPrefix(err.Error(), "PANIC") {
				return fmt.Errorf("%s on a fresh %s builder for a %v root: %v", name, impl, c.V.K, err)
			}
			cls = append(cls, "wrong-kind-rejected")
		}
	}
	a := &c12Asm{prog: nodes.NewProg(c.Prog), inj: map[int][]C12Inj{}}
	for _, in := range c.Inj {
		a.inj[in.At] = append(a.inj[in.At], in)
	}
	nb := np.NewBuilder()
	if err := evid.Guard("assembling", func() error { return a.assemble(nb, c.V, 0) }); err != nil {
		return fmt.Errorf("%s: %w (value %s)", impl, err, c.V.Short(200))
	}
	var n datamodel.Node
	if err := evid.Guard("Build", func() error { n = nb.Build(); return nil }); err != nil {
		return fmt.Errorf("%s: %w", impl, err)
	}
	got, err := nodes.Full.Read(n)
	if err != nil {
		return fmt.Errorf("%s: built node inconsistent: %w", impl, err)
	}
	if !val.Equal(got, c.V, val.Ordered) {
		return fmt.Errorf("%s: after %d rejected keys the node is not exactly the accepted entries: %s (got vs want)", impl, a.injected, val.Diff(got, c.V))
	}
	if c.Reuse {
		if err := evid.Guard("Reset", func() error { nb.Reset(); return nil }); err != nil {
			return fmt.Errorf("%s: %w", impl, err)
		}
		np2 := nodes.ProtoFor(impl, c.V.K)
		v2 := c.V2
		if v2.K != c.V.K && np2 != datamodel.NodePrototype(basicnode.Prototype.Any) {
			v2 = c.V // a kind-specific builder can only be reused for its own kind
		}
		a2 := &c12Asm{prog: nodes.NewProg(c.Prog), inj: map[int][]C12Inj{}}
		if err := evid.Guard("assembling after Reset", func() error { return a2.assemble(nb, v2, 0) }); err != nil {
			return fmt.Errorf("%s: after Reset: %w", impl, err)
		}
		n2 := nb.Build()
		got2, err := nodes.Full.Read(n2)
		if err != nil || !val.Equal(got2, v2, val.Ordered) {
			return fmt.Errorf("%s: node built after Reset differs: %s (err %v)", impl, val.Diff(got2, v2), err)
		}
		again, err := nodes.Read(n)
		if err != nil || !val.Equal(again, c.V, val.Ordered) {
			return fmt.Errorf("%s: the first node changed after its builder was reset and reused: %s (err %v)", impl, val.Diff(again, c.V), err)
		}
		cls = append(cls, "reset-reuse")
	}
	if a.injected > 0 {
		cls = append(cls, "dupkey-rejected")
	}
	nt := a.injected > 0 && (a.nested > 0 || c.V.Depth() >= 3 || a.injected >= 2)
	b, _ := jsonMarshal(c)
	rec.Case(val.HashBytes(b), nt, cls...)
	if nt && rec.WantSample() && len(b) < 2500 {
		rec.Sample(map[string]any{"value": c.V.String(), "impl": c.Impl, "injections": c.Inj, "rejected": a.injected})
	}
	return nil
}

var c12Part = evid.Part[C12Case]{
	Prop: "C12", Name: "protocol", Quick: 4000, Thorough: 400000,
	Rule: "legal assembler call sequence (program styles of C01) for a drawn value on basicnode Any/Map/List/scalar and bindnode Any-container builders, with repeated keys injected before drawn entries of drawn maps (via AssembleEntry, key AssignString, key AssignNode), an optional kind-inappropriate first call on a fresh kind-specific builder, and an optional Reset + reuse; the repeated key must give a repeated-key error, the sequence continues and the node must be exactly the accepted entries; non-trivial = ≥1 rejection and (nested, depth ≥3, or ≥2 rejections); distinct by the whole case",
	Gen: func(t *rapid.T) C12Case {
		p := val.Profile{MaxDepth: 4, MaxWidth: 5, Uint: true, Float: true, Bytes: true, Links: true, Null: true}
		c := C12Case{V: val.DrawV(t, &p, "v"), Prog: rapid.SliceOfN(rapid.Byte(), 0, 16).Draw(t, "prog"), Impl: string(rapid.SampledFrom(nodes.Impls).Draw(t, "impl")),
			Reuse: rapid.Bool().Draw(t, "reuse")}
		nmaps := 0
		c.V.Walk(func(x val.V) {
			if x.K == val.Map {
				nmaps++
			}
		})
		if nmaps > 0 {
			ni := rapid.IntRange(0, 3).Draw(t, "ninj")
			for i := 0; i < ni; i++ {
				c.Inj = append(c.Inj, C12Inj{At: rapid.IntRange(0, nmaps-1).Draw(t, "at"), Pos: rapid.IntRange(1, 6).Draw(t, "pos"), Style: rapid.IntRange(0, 2).Draw(t, "style"), Which: rapid.IntRange(0, 5).Draw(t, "which")})
			}
		}
		if rapid.IntRange(0, 3).Draw(t, "wrongkind") == 0 {
			c.WrongKind = rapid.IntRange(1, 30).Draw(t, "wk")
		}
		if c.Reuse {
			p2 := val.Profile{MaxDepth: 2, MaxWidth: 3, Float: true, Null: true}
			c.V2 = val.DrawV(t, &p2, "v2")
		}
		return c
	},
	Check: c12Check,
}.Reg()

func TestC12_Protocol(t *testing.T) { c12Part.Run(t) }
