package checks

import (
	"bytes"
	"encoding/binary"
	"fmt"
	"math"
	"runtime"
	"strings"
	"testing"
	"time"

	"github.com/ipld/go-ipld-prime/codec/dagcbor"
	"github.com/ipld/go-ipld-prime/codec/dagjson"
	ipldjson "github.com/ipld/go-ipld-prime/codec/json"
	"github.com/ipld/go-ipld-prime/codec/raw"
	"github.com/ipld/go-ipld-prime/datamodel"
	"github.com/ipld/go-ipld-prime/linking"
	"github.com/ipld/go-ipld-prime/node/basicnode"
	"github.com/ipld/go-ipld-prime/node/bindnode"
	"github.com/ipld/go-ipld-prime/node/gendemo"
	"github.com/ipld/go-ipld-prime/traversal"
	"github.com/ipld/go-ipld-prime/traversal/selector"
	"pgregory.net/rapid"

	"verif/evid"
	"verif/graph"
	"verif/nodes"
	"verif/refcbor"
	"verif/refsel"
	"verif/selx"
	"verif/tschema"
	"verif/typedx"
	"verif/val"
)

// C10: parsers of untrusted data are total and bounded: error or result, never panic.

type C10Opt struct {
	MaxDepth   int64 `json:"max_depth"`
	Budget     int64 `json:"budget"`
	Prealloc   int64 `json:"prealloc"`
	Relaxed    bool  `json:"relaxed"`
	Links      bool  `json:"links"`       // AllowLinks / ParseLinks
	ParseBytes bool  `json:"parse_bytes"` // dag-json only
	NoEnd      bool  `json:"dont_parse_beyond_end"`
}

type C10Case struct {
	Codec  string `json:"codec"` // dag-cbor | cbor | dag-json | json | raw
	Bytes  []byte `json:"bytes"`
	Opt    C10Opt `json:"opt"`
	Target string `json:"target"`
	Source string `json:"source,omitempty"`
	// typed targets: the builder is the bindnode prototype of Type in S (Level 0 type, 1 representation)
	S     *tschema.Schema `json:"schema,omitempty"`
	Type  string          `json:"type,omitempty"`
	Level int             `json:"level,omitempty"`
}

var c10Targets = []string{"basic.any", "proxy", "basic.map", "basic.list", "basic.string", "basic.bytes", "basic.int", "basic.link", "bind.anymap", "bind.anylist", "bind.anymap.repr"}

var c10GenDemo = map[string]datamodel.NodePrototype{
	"gendemo.Msg3": gendemo.Type.Msg3, "gendemo.Msg3.repr": gendemo.Type.Msg3__Repr,
	"gendemo.Map": gendemo.Type.Map__String__Msg3, "gendemo.Map.repr": gendemo.Type.Map__String__Msg3__Repr,
	"gendemo.UnionKinded": gendemo.Type.UnionKinded, "gendemo.UnionKinded.repr": gendemo.Type.UnionKinded__Repr,
}

func c10Builder(target string) (datamodel.NodeBuilder, *nodes.Proxy) {
	if np, ok := c10GenDemo[target]; ok {
		return np.NewBuilder(), nil
	}
	switch target {
	case "proxy":
		p := nodes.NewProxy(basicnode.Prototype.Any.NewBuilder())
		return p.Builder(), p
	case "basic.map":
		return basicnode.Prototype.Map.NewBuilder(), nil
	case "basic.list":
		return basicnode.Prototype.List.NewBuilder(), nil
	case "basic.string":
		return basicnode.Prototype.String.NewBuilder(), nil
	case "basic.bytes":
		return basicnode.Prototype.Bytes.NewBuilder(), nil
	case "basic.int":
		return basicnode.Prototype.Int.NewBuilder(), nil
	case "basic.link":
		return basicnode.Prototype.Link.NewBuilder(), nil
	case "bind.anymap":
		return nodes.BindAnyMap.NewBuilder(), nil
	case "bind.anylist":
		return nodes.BindAnyList.NewBuilder(), nil
	case "bind.anymap.repr":
		return nodes.BindAnyMap.Representation().NewBuilder(), nil
	}
	return basicnode.Prototype.Any.NewBuilder(), nil
}

// withWatchdog runs f; a panic becomes an error, a run longer than the limit is reported.
func withWatchdog(what string, limit time.Duration, f func() error) (err error, timedOut bool) {
	done := make(chan error, 1)
	go func() {
		done <- evid.Guard(what, f)
	}()
	select {
	case e := <-done:
		return e, false
	case <-time.After(limit):
		return fmt.Errorf("%s did not terminate within %v", what, limit), true
	}
}

const (
	c10KCbor = 512  // bytes of allocation tolerated per unit of (budget + input length)
	c10KJson = 4096 // JSON has no budget: per input byte
	c10Slack = 1 << 20
)

var c10MaxRatio float64

func c10Check(c C10Case, rec *evid.Rec) error {
	nb, proxy := c10Builder(c.Target)
	if c.S != nil {
		ts, err := c.S.Build()
		if err != nil {
			return fmt.Errorf("generated schema does not build: %w", err)
		}
		if err := evid.Guard("bindnode.Prototype", func() error {
			nb = typedx.TypedProto(bindnode.Prototype(nil, ts.TypeByName(c.Type)), c.Level).NewBuilder()
			return nil
		}); err != nil {
			return err
		}
	}
	var decode func() error
	effDepth, effPre, effBudget := c.Opt.MaxDepth, c.Opt.Prealloc, c.Opt.Budget
	if effDepth <= 0 {
		effDepth = 1024
	}
	if effPre <= 0 {
		effPre = 1024
	}
	if effBudget <= 0 {
		effBudget = 10 << 20
	}
	var bound uint64
	switch c.Codec {
	case "dag-cbor", "cbor":
		o := dagcbor.DecodeOptions{AllowLinks: c.Opt.Links && c.Codec == "dag-cbor", RelaxedDecode: c.Opt.Relaxed, DontParseBeyondEnd: c.Opt.NoEnd,
			AllocationBudget: c.Opt.Budget, MaxCollectionPrealloc: c.Opt.Prealloc, MaxDepth: c.Opt.MaxDepth}
		decode = func() error { return o.Decode(nb, bytes.NewReader(c.Bytes)) }
		bound = c10Slack + c10KCbor*uint64(effBudget+int64(len(c.Bytes)))
	case "dag-json", "json":
		o := dagjson.DecodeOptions{ParseLinks: c.Opt.Links && c.Codec == "dag-json", ParseBytes: c.Opt.ParseBytes && c.Codec == "dag-json", DontParseBeyondEnd: c.Opt.NoEnd, MaxDepth: c.Opt.MaxDepth}
		decode = func() error { return o.Decode(nb, bytes.NewReader(c.Bytes)) }
		if c.Codec == "json" && c.Opt.MaxDepth == 0 && !c.Opt.NoEnd {
			decode = func() error { return ipldjson.Decode(nb, bytes.NewReader(c.Bytes)) }
		}
		bound = c10Slack + c10KJson*uint64(len(c.Bytes))
		effPre = 1 << 62
	default:
		decode = func() error { return raw.Decode(nb, bytes.NewReader(c.Bytes)) }
		bound = c10Slack + 64*uint64(len(c.Bytes))
		effPre = 1 << 62
	}
	var ms0, ms1 runtime.MemStats
	runtime.ReadMemStats(&ms0)
	derr, timedOut := withWatchdog(c.Codec+" decode", 10*time.Second, decode)
	runtime.ReadMemStats(&ms1)
	what := fmt.Sprintf("%s decoder (%+v) into %s on %d bytes %s", c.Codec, c.Opt, c.Target, len(c.Bytes), clip(c.Bytes))
	if timedOut {
		return fmt.Errorf("%s: %v", what, derr)
	}
	if derr != nil && strings.HasPrefix(derr.Error(), "PANIC") {
		return fmt.Errorf("%s: %v", what, derr)
	}
	alloc := ms1.TotalAlloc - ms0.TotalAlloc
	if alloc > bound {
		return fmt.Errorf("%s: allocated %d bytes, more than the bound %d (= 1 MiB + K·(budget %d + input %d))", what, alloc, bound, effBudget, len(c.Bytes))
	}
	if r := float64(alloc) / float64(bound); r > c10MaxRatio {
		c10MaxRatio = r
		rec.Extra("max_alloc_over_bound", r)
	}
	if proxy != nil {
		if int64(proxy.MaxDepth) > effDepth {
			return fmt.Errorf("%s: the decoder built structures nested %d deep, the configured maximum is %d", what, proxy.MaxDepth, effDepth)
		}
		if proxy.MaxHint > effPre {
			return fmt.Errorf("%s: the decoder passed a size hint of %d, the preallocation cap is %d", what, proxy.MaxHint, effPre)
		}
	}
	class := "rejected"
	nt := len(c.Bytes) >= 2
	if derr == nil {
		class = "accepted"
		nt = true
		n := nb.Build()
		if _, rerr := nodes.Read(n); rerr != nil && strings.Contains(rerr.Error(), "PANIC") {
			return fmt.Errorf("%s: the decoded node cannot be read: %v", what, rerr)
		}
	} else {
		es := derr.Error()
		if strings.Contains(es, "budget") || strings.Contains(es, "too many resources") {
			class = "limit:budget"
		} else if strings.Contains(es, "depth") {
			class = "limit:depth"
		}
	}
	hk := fmt.Sprintf("%s|%+v|%s|", c.Codec, c.Opt, c.Target)
	if c.S != nil {
		sb, _ := jsonMarshal(c.S)
		hk += fmt.Sprintf("%s|%s|%d|", sb, c.Type, c.Level)
	}
	rec.Case(val.HashBytes(append([]byte(hk), c.Bytes...)), nt, "codec:"+c.Codec, class, "target:"+c.Target, "src:"+c.Source)
	if nt && class != "rejected" && rec.WantSample() && len(c.Bytes) < 200 {
		rec.Sample(map[string]any{"codec": c.Codec, "opt": c.Opt, "target": c.Target, "bytes": fmt.Sprintf("%x", c.Bytes), "outcome": class})
	}
	return nil
}

func be32(x uint32) []byte { b := make([]byte, 4); binary.BigEndian.PutUint32(b, x); return b }
func be64(x uint64) []byte { b := make([]byte, 8); binary.BigEndian.PutUint64(b, x); return b }

var c10HostileCbor = func() [][]byte {
	var out [][]byte
	for major := byte(2); major <= 5; major++ {
		for _, n := range []uint32{0xffffffff, 0x7fffffff, 0x01ffffff, 0x02000000, 0x00100000, 70000} {
			out = append(out, append([]byte{major<<5 | 26}, be32(n)...))
			out = append(out, append(append([]byte{major<<5 | 26}, be32(n)...), bytes.Repeat([]byte{0x00}, 64)...))
		}
		for _, n := range []uint64{1<<63 - 1, 1<<64 - 1, 1 << 32, 1 << 40} {
			out = append(out, append([]byte{major<<5 | 27}, be64(n)...))
		}
	}
	for _, n := range []int{100, 1023, 1024, 1025, 2000, 4000} {
		out = append(out, append(bytes.Repeat([]byte{0x81}, n), 0x00))
		out = append(out, append(bytes.Repeat([]byte{0xa1, 0x61, 0x78}, n), 0x00))
		out = append(out, append(bytes.Repeat([]byte{0x82, 0x00}, n), 0x00))
		out = append(out, bytes.Repeat([]byte{0xd8, 0x2a}, n))
		out = append(out, bytes.Repeat([]byte{0x9f}, n))
		out = append(out, bytes.Repeat([]byte{0xbf, 0x60}, n))
	}
	// many collection headers that each claim a length within the budget but not in sum (nested, and as siblings)
	for _, n := range []int{3, 5, 40, 600, 2000} {
		out = append(out, bytes.Repeat([]byte{0x99, 0x03, 0xe8}, n))
		out = append(out, bytes.Repeat([]byte{0x98, 0xff}, n))
		out = append(out, bytes.Repeat([]byte{0xb9, 0x03, 0xe8, 0x60}, n))
		out = append(out, append([]byte{0x99, 0xff, 0xff}, bytes.Repeat([]byte{0x98, 0xc8}, n)...))
		out = append(out, append([]byte{0x99, 0xff, 0xff}, bytes.Repeat([]byte{0x99, 0x03, 0xe8, 0x01}, n)...))
	}
	// a big list of empty maps / empty lists / empty strings
	for _, el := range []byte{0xa0, 0x80, 0x60, 0x40, 0xf6} {
		out = append(out, append(append([]byte{0x99}, 0x0f, 0xa0), bytes.Repeat([]byte{el}, 4000)...))
		out = append(out, append(append([]byte{0x9a}, be32(1<<31)...), bytes.Repeat([]byte{el}, 4000)...))
	}
	// a map with thousands of duplicate empty keys
	out = append(out, append([]byte{0xb9, 0x07, 0xd0}, bytes.Repeat([]byte{0x60, 0x00}, 2000)...))
	out = append(out, []byte{0xc2, 0x49, 1, 0, 0, 0, 0, 0, 0, 0, 0}, []byte{0x3b, 0xff, 0xff, 0xff, 0xff, 0xff, 0xff, 0xff, 0xff}, []byte{0xf9, 0x7e, 0x00}, []byte{0xfb, 0x7f, 0xf0, 0, 0, 0, 0, 0, 0})
	return out
}()

var c10HostileJson = func() [][]byte {
	var out [][]byte
	for _, n := range []int{100, 1023, 1024, 1025, 2000, 4000} {
		out = append(out, []byte(strings.Repeat("[", n)))
		out = append(out, []byte(strings.Repeat("[", n)+strings.Repeat("]", n)))
		out = append(out, []byte(strings.Repeat(`{"a":`, n)+"1"+strings.Repeat("}", n)))
		out = append(out, []byte(strings.Repeat(`{"/":`, n)+`"x"`+strings.Repeat("}", n)))
		out = append(out, []byte(strings.Repeat(`{"/":{"bytes":`, n/2)+`"AA"`+strings.Repeat("}}", n/2)))
		out = append(out, []byte(strings.Repeat("9", n)))
		out = append(out, []byte("0."+strings.Repeat("0", n)+"1"))
		out = append(out, []byte(`"`+strings.Repeat(`\ud800`, n/6)+`"`))
	}
	for _, s := range []string{"1e999999", "-1e-999999", "-", "+1", "0x10", "1e", "1.", ".5", "-0", "1E+2", `"\ud800"`, `"\udc00\ud800"`, `"\u0000"`, `"\x"`, `"`, `{"/":"`, `{"/":"bafy"}`, `{"/":{"bytes":"!!!"}}`,
		`{"/":{"bytes":"AA=="}}`, `{"/":{"bytes":"AA","x":1}}`, `{"/":"QmXNh4MHXRFhmv4W3LkdFHK2JgaV5qBqfXkxwUD5oApqCT","x":1}`, `{"a":1,"a":2}`, `{"a"}`, `{"a":}`, `[1,]`, `[,1]`, `nul`, `tru`, `nulll`, "\xff\xfe", "[1] x", "[1] \x00\x00", "  \n[1]\n  ",
		`9223372036854775808`, `-9223372036854775809`, `18446744073709551616`, `1.7976931348623159e308`, `4.9e-325`} {
		out = append(out, []byte(s))
	}
	return out
}()

func drawC10Opt(t *rapid.T) C10Opt {
	return C10Opt{
		MaxDepth: rapid.SampledFrom([]int64{0, 0, 1, 2, 7, 64}).Draw(t, "maxdepth"),
		Budget:   rapid.SampledFrom([]int64{0, 1, 64, 4096, 65536}).Draw(t, "budget"),
		Prealloc: rapid.SampledFrom([]int64{0, 0, 1, 16, 1 << 40}).Draw(t, "prealloc"),
		Relaxed:  rapid.Bool().Draw(t, "relaxed"), Links: rapid.Bool().Draw(t, "links"), ParseBytes: rapid.Bool().Draw(t, "parsebytes"), NoEnd: rapid.IntRange(0, 3).Draw(t, "noend") == 0,
	}
}

func drawSoup(t *rapid.T) []byte {
	var b []byte
	n := rapid.IntRange(1, 12).Draw(t, "n")
	for i := 0; i < n; i++ {
		major := byte(rapid.IntRange(0, 7).Draw(t, "major"))
		ai := byte(rapid.SampledFrom([]int{0, 1, 2, 3, 5, 20, 21, 22, 23, 24, 25, 26, 27, 28, 31}).Draw(t, "ai"))
		b = append(b, major<<5|ai)
		if ai >= 24 && ai <= 27 {
			w := 1 << (ai - 24)
			arg := rapid.SliceOfN(rapid.Byte(), w, w).Draw(t, "arg")
			if rapid.Bool().Draw(t, "smallarg") {
				for j := range arg {
					arg[j] = 0
				}
				arg[w-1] = byte(rapid.IntRange(0, 40).Draw(t, "lowarg"))
			}
			b = append(b, arg...)
		}
		if (major == 2 || major == 3) && rapid.Bool().Draw(t, "payload") {
			b = append(b, rapid.SliceOfN(rapid.Byte(), 0, 5).Draw(t, "pl")...)
		}
	}
	return b
}

var c10Decoders = evid.Part[C10Case]{
	Prop: "C10", Name: "decoders", Quick: 24000, Thorough: 2400000,
	Rule: "bytes (random, CBOR token soup, mutated valid encodings, mutated hostile table: 32/64-bit length claims on every major type, nesting ramps, runs of collection headers that each fit the budget but not in sum, long digit runs, huge exponents, lone surrogates, reserved-shape nests) × decoder ∈ {dag-cbor, cbor, dag-json, json, raw} × options (MaxDepth 1/2/7/64/default, AllocationBudget 1/64/4096/65536/default, MaxCollectionPrealloc 1/16/2^40/default, relaxed, links, parse-bytes, dont-parse-beyond-end) × target assembler (basicnode Any and kind-specific, counting proxy, bindnode Any containers at type and representation level); oracle: no panic, terminates (10 s watchdog), proxy nesting ≤ MaxDepth, size hints ≤ prealloc cap, TotalAlloc delta ≤ 1 MiB + K·(budget + input length); non-trivial = accepted, a configured limit tripped, or a rejection of an input of ≥2 bytes; distinct by (input, options, target)",
	Gen: func(t *rapid.T) C10Case {
		c := C10Case{Codec: rapid.SampledFrom([]string{"dag-cbor", "dag-cbor", "cbor", "dag-json", "dag-json", "json", "raw"}).Draw(t, "codec"), Opt: drawC10Opt(t),
			Target: rapid.SampledFrom(c10Targets).Draw(t, "target")}
		isJson := c.Codec == "dag-json" || c.Codec == "json"
		switch rapid.IntRange(0, 5).Draw(t, "source") {
		case 0:
			c.Bytes, c.Source = rapid.SliceOfN(rapid.Byte(), 0, 64).Draw(t, "raw"), "random"
		case 1:
			if isJson {
				c.Bytes, c.Source = []byte(rapid.StringMatching(`[\[\]{}:,"0-9a-z\\/ .eE+-]{0,60}`).Draw(t, "jsonsoup")), "soup"
			} else {
				c.Bytes, c.Source = drawSoup(t), "soup"
			}
		case 2, 3:
			tbl := c10HostileCbor
			if isJson {
				tbl = c10HostileJson
			}
			b := rapid.SampledFrom(tbl).Draw(t, "hostile")
			c.Bytes, _ = drawByteMutations(t, b, 2)
			c.Source = "hostile"
		default:
			p := val.Profile{MaxDepth: 4, MaxWidth: 4, Uint: !isJson, Float: true, Bytes: true, Links: true, Null: true, UTF8Only: isJson, JSONSafe: isJson}
			v := val.DrawV(t, &p, "v")
			var b []byte
			if isJson {
				n, err := nodes.BuildDefault(v)
				if err == nil {
					b, _ = encDagJson(n)
				}
			} else {
				b, _ = refcbor.Encode(v)
			}
			c.Bytes, _ = drawByteMutations(t, b, 3)
			c.Source = "mutant"
		}
		return c
	},
	Check: c10Check,
}.Reg()

func TestC10_Decoders(t *testing.T) { c10Decoders.Run(t) }

// Typed assemblers as decoder targets: the encoding of a conforming value of a drawn schema type
// (or of the checked-in generated types), damaged at byte level, decoded straight into the typed builder.
var c10Typed = evid.Part[C10Case]{
	Prop: "C10", Name: "typedtargets", Quick: 3000, Thorough: 300000,
	Rule: "decoders feeding TYPED assemblers: drawn schema × type × level (bindnode) or the checked-in generated types (node/gendemo), input = reference encoding (DAG-CBOR, or DAG-JSON text) of a conforming value's tree with 0-3 byte-level mutations, or a hostile-table entry, × decoder options; oracle as for the untyped targets (no panic, terminates, allocation bound) and an accepted node must be fully readable; non-trivial = accepted or rejected after ≥2 bytes; distinct by (schema, type, level, options, input)",
	Gen: func(t *rapid.T) C10Case {
		c := C10Case{Codec: rapid.SampledFrom([]string{"dag-cbor", "dag-cbor", "cbor", "dag-json", "json"}).Draw(t, "codec"), Opt: drawC10Opt(t)}
		isJson := c.Codec == "dag-json" || c.Codec == "json"
		var events val.V
		if rapid.IntRange(0, 4).Draw(t, "gendemo") == 0 {
			names := []string{"gendemo.Msg3", "gendemo.Msg3.repr", "gendemo.Map", "gendemo.Map.repr", "gendemo.UnionKinded", "gendemo.UnionKinded.repr"}
			c.Target = rapid.SampledFrom(names).Draw(t, "gd")
			m3 := func() val.V {
				return msg3(val.DrawInt(t, "i", false), val.DrawInt(t, "i", false), val.DrawInt(t, "i", false))
			}
			switch c.Target {
			case "gendemo.Msg3", "gendemo.Msg3.repr":
				events = m3()
			case "gendemo.Map", "gendemo.Map.repr":
				events = val.V{K: val.Map, Ents: []val.Ent{}}
				for i, n := 0, rapid.IntRange(0, 3).Draw(t, "n"); i < n; i++ {
					events.Ents = append(events.Ents, val.Ent{K: fmt.Sprintf("k%d", i), V: m3()})
				}
			case "gendemo.UnionKinded":
				events = val.MkMap(val.Ent{K: rapid.SampledFrom([]string{"Foo", "Bar", "Baz"}).Draw(t, "m"), V: val.MkInt(1)})
			default:
				events = rapid.SampledFrom([]val.V{val.MkInt(7), val.MkBool(true), val.MkString("s")}).Draw(t, "m")
			}
		} else {
			s, typ, tv := genSchemaValue(t, tschema.GenOpts{MaxTypes: 5})
			c.S, c.Type, c.Level = &s, typ, rapid.IntRange(0, 1).Draw(t, "level")
			c.Target = "bindnode.typed"
			if c.Level == 0 {
				events = typedx.StripAbsent(tschema.TypeView(&s, typ, tv))
			} else {
				events, _ = tschema.ReprView(&s, typ, tv)
			}
		}
		var b []byte
		if isJson {
			if n, err := nodes.BuildDefault(events); err == nil {
				b, _ = encDagJson(n)
			}
		} else {
			b, _ = refcbor.Encode(events)
		}
		if rapid.IntRange(0, 7).Draw(t, "hostile") == 0 {
			tbl := c10HostileCbor
			if isJson {
				tbl = c10HostileJson
			}
			b = rapid.SampledFrom(tbl).Draw(t, "hostilewhich")
			c.Source = "hostile"
		} else {
			c.Source = "typed-mutant"
		}
		c.Bytes, _ = drawByteMutations(t, b, 3)
		return c
	},
	Check: c10Check,
}.Reg()

func TestC10_TypedTargets(t *testing.T) { c10Typed.Run(t) }

// TestC10_HostileTable runs every entry of the hostile tables, unmutated, against every
// codec of its family with tight and default limits and the proxy target (both tiers).
func TestC10_HostileTable(t *testing.T) {
	if evid.Shard() != 0 {
		t.Skip()
	}
	rec := evid.New("C10", "hostiletable", "every entry of the hostile CBOR and JSON tables × codecs of the family × {default limits, budget 64, budget 4096 + depth 7, prealloc 2^40, budget 4096, budget 65536 + prealloc 2^40} × {proxy, basic.any, bind.anymap}; same oracle as [decoders]; enumerated completely")
	rec.Exhaustive()
	defer rec.Flush()
	opts := []C10Opt{{}, {Budget: 64, Links: true}, {Budget: 4096, MaxDepth: 7, Links: true, ParseBytes: true}, {Prealloc: 1 << 40, Relaxed: true, Links: true, ParseBytes: true},
		{Budget: 4096, Links: true}, {Budget: 65536, Prealloc: 1 << 40}}
	run := func(codec string, tbl [][]byte) {
		for i, b := range tbl {
			for _, o := range opts {
				for _, target := range []string{"proxy", "basic.any", "bind.anymap"} {
					c := C10Case{Codec: codec, Bytes: b, Opt: o, Target: target, Source: "hostile-table"}
					if err := c10Check(c, rec); err != nil {
						evid.SaveFailure("C10", "decoders", c, err)
						t.Fatalf("C10.hostiletable entry %d: %v", i, err)
					}
				}
			}
		}
	}
	run("dag-cbor", c10HostileCbor)
	run("cbor", c10HostileCbor)
	run("dag-json", c10HostileJson)
	run("json", c10HostileJson)
}

// TestC10_SelectorBoundaryTable enumerates every pair of boundary integers in every integer position of the
// selector language (subset bounds, index, range bounds, recursion depth) over a root holding each leaf and
// container shape the clause can meet; same oracle as [selectors].
func TestC10_SelectorBoundaryTable(t *testing.T) {
	if evid.Shard() != 0 {
		t.Skip()
	}
	rec := evid.New("C10", "selectorboundaries", "every pair of boundary integers {0, ±1, 2, 5, 6, 7, 2^31-1, 2^31, 2^32, 2^40, 2^62+5, ±2^63 (and +1/-1 off them)} as subset bounds, range bounds, index and recursion depth, under explore-all over a root holding empty / short strings and bytes, a 5-element list and a numeric-keyed map; compile and all three walkers must return or error without panic; enumerated completely")
	rec.Exhaustive()
	defer rec.Flush()
	bounds := []int64{0, -1, 1, 2, 5, 6, 7, -6, -7, 1<<31 - 1, 1 << 31, 1 << 32, 1 << 40, 1<<62 + 5, math.MaxInt64, math.MaxInt64 - 1, math.MinInt64, math.MinInt64 + 1}
	root := val.MkList(val.MkString("abcdef"), val.MkBytes([]byte("0123456789")), val.MkString(""), val.MkBytes(nil),
		val.MkList(val.MkInt(1), val.MkInt(2), val.MkString("xyz"), val.MkInt(4), val.MkList(val.MkString("deep"))),
		val.MkMap(val.Ent{K: "0", V: val.MkString("zero")}, val.Ent{K: "1", V: val.MkList(val.MkString("one"))}, val.Ent{K: "5", V: val.MkInt(5)}))
	g := graph.Graph{Root: root}
	run := func(s refsel.Sel) {
		c := C10SelCase{Spec: s.Spec(), G: g}
		if err := c10SelCheck(c, rec); err != nil {
			evid.SaveFailure("C10", "selectors", c, err)
			t.Fatalf("C10.selectorboundaries %s: %v", s, err)
		}
	}
	for _, a := range bounds {
		run(refsel.All(refsel.Index(a, refsel.Match())))
		run(refsel.Rec(a, refsel.All(refsel.Union(refsel.Match(), refsel.Edge()))))
		for _, b := range bounds {
			run(refsel.All(refsel.MatchSubset(a, b)))
			run(refsel.All(refsel.Range(a, b, refsel.MatchSubset(b, a))))
		}
	}
}

// ---------------------------------------------------------------------------------------
// selector compilation and the walk of whatever compiled

type C10SelCase struct {
	Spec val.V       `json:"spec"`
	G    graph.Graph `json:"graph"`
	// Reifiers: the link system of the walk knows one ADL ("known", the identity); specs may name it, another
	// name or the empty name in interpret-as clauses
	Reifiers bool `json:"reifiers,omitempty"`
}

func c10SelCheck(c C10SelCase, rec *evid.Rec) error {
	specNode, err := nodes.BuildDefault(c.Spec)
	if err != nil {
		return err
	}
	var sel selector.Selector
	var ms0, ms1 runtime.MemStats
	runtime.ReadMemStats(&ms0)
	cerr, timedOut := withWatchdog("CompileSelector", 10*time.Second, func() error {
		var e error
		sel, e = selector.CompileSelector(specNode)
		return e
	})
	runtime.ReadMemStats(&ms1)
	what := fmt.Sprintf("selector spec %s", c.Spec.Short(300))
	if timedOut || (cerr != nil && strings.HasPrefix(cerr.Error(), "PANIC")) {
		return fmt.Errorf("%s: %v", what, cerr)
	}
	if alloc, bound := ms1.TotalAlloc-ms0.TotalAlloc, uint64(c10Slack+4096*c.Spec.Size()); alloc > bound {
		return fmt.Errorf("%s: compilation allocated %d bytes for a spec of %d values (bound %d)", what, alloc, c.Spec.Size(), bound)
	}
	class := "rejected"
	if cerr == nil {
		class = "compiled"
		real, err := graph.Realise(c.G, nil)
		if err != nil {
			return err
		}
		for _, mode := range []string{"WalkAdv", "WalkMatching", "WalkTransforming"} {
			werr, timedOut := withWatchdog(mode, 10*time.Second, func() error {
				cfg := selx.Config(real)
				if c.Reifiers {
					cfg.LinkSystem.KnownReifiers = map[string]linking.NodeReifier{
						"known": func(_ linking.LinkContext, n datamodel.Node, _ *linking.LinkSystem) (datamodel.Node, error) {
							return n, nil
						},
					}
				}
				prog := traversal.Progress{Cfg: cfg, Budget: &traversal.Budget{NodeBudget: 3000, LinkBudget: 200}}
				switch mode {
				case "WalkAdv":
					return prog.WalkAdv(real.Root, sel, func(traversal.Progress, datamodel.Node, traversal.VisitReason) error { return nil })
				case "WalkMatching":
					return prog.WalkMatching(real.Root, sel, func(traversal.Progress, datamodel.Node) error { return nil })
				default:
					_, e := prog.WalkTransforming(real.Root, sel, func(_ traversal.Progress, n datamodel.Node) (datamodel.Node, error) { return n, nil })
					return e
				}
			})
			if timedOut || (werr != nil && strings.HasPrefix(werr.Error(), "PANIC")) {
				return fmt.Errorf("%s compiled, but %s over %s: %v", what, mode, c.G.Root.Short(150), werr)
			}
		}
	}
	b, _ := jsonMarshal(c)
	rec.Case(val.HashBytes(b), true, class)
	if class == "compiled" && rec.WantSample() && len(b) < 2500 {
		rec.Sample(map[string]any{"spec": c.Spec.String(), "root": c.G.Root.String()})
	}
	return nil
}

var c10Selectors = evid.Part[C10SelCase]{
	Prop: "C10", Name: "selectors", Quick: 4000, Thorough: 400000,
	Rule: "selector specs from an UNCONSTRAINED generator (any integers incl. ±2^63 and huge ranges, negative depths/indices, inverted subsets, edges anywhere incl. outside recursions / as the whole sequence / directly under a union of the sequence, nested recursions; a third wrapped in an interpret-as clause, at the root or for every child, naming a registered ADL, an unregistered one or none, walked with and without a reifier registered in the link system) with 0-3 structural mutations (wrong kinds, dropped / renamed / extra keys); CompileSelector must return or error without panic within an allocation bound; whatever compiles is walked (WalkAdv, WalkMatching, WalkTransforming, node budget 3000) over a drawn graph without panic or hang; all cases non-trivial; distinct by (spec, graph)",
	Gen: func(t *rapid.T) C10SelCase {
		o := graph.DefaultOpts()
		o.MaxBlocks = 2
		g := graph.Draw(t, o)
		var links []string
		for _, b := range g.Blocks {
			links = append(links, graph.CidOf(b))
		}
		spec := refsel.DrawWild(t, rapid.IntRange(0, 4).Draw(t, "depth"), links).Spec()
		nm := rapid.IntRange(0, 3).Draw(t, "nmut")
		for i := 0; i < nm; i++ {
			if m, ok := val.Mutate(spec, rapid.IntRange(0, spec.Size()-1).Draw(t, "at"), rapid.IntRange(0, 40).Draw(t, "how")); ok {
				spec = m
			}
		}
		c := C10SelCase{Spec: spec, G: g, Reifiers: rapid.Bool().Draw(t, "reifiers")}
		// interpret-as clauses (naming a registered ADL, an unregistered one, or nothing) around the whole spec or
		// around what is applied to every child
		interpretAs := func(next val.V) val.V {
			name := rapid.SampledFrom([]string{"known", "unknown", "", "known"}).Draw(t, "adl")
			return val.MkMap(val.Ent{K: "~", V: val.MkMap(val.Ent{K: "as", V: val.MkString(name)}, val.Ent{K: ">", V: next})})
		}
		switch rapid.IntRange(0, 5).Draw(t, "interpret") {
		case 0:
			c.Spec = interpretAs(c.Spec)
		case 1:
			c.Spec = val.MkMap(val.Ent{K: "a", V: val.MkMap(val.Ent{K: ">", V: interpretAs(c.Spec)})})
		}
		return c
	},
	Check: c10SelCheck,
}.Reg()

func TestC10_Selectors(t *testing.T) { c10Selectors.Run(t) }

// ---------------------------------------------------------------------------------------
// path parsing

type C10PathCase struct {
	S string `json:"s"` // val.Txt
}

var c10Paths = evid.Part[C10PathCase]{
	Prop: "C10", Name: "paths", Quick: 6000, Thorough: 600000,
	Rule: "arbitrary strings through ParsePath and every Path / PathSegment accessor; must not panic; segments are never empty and never contain '/'; non-trivial = the string contains a '/'; distinct by string",
	Gen: func(t *rapid.T) C10PathCase {
		return C10PathCase{S: val.Txt(val.DrawText(t, "s", false, 8) + rapid.SampledFrom([]string{"", "/", "//", "/a", "a/", "/0/-1/", "\x00/"}).Draw(t, "suffix"))}
	},
	Check: func(c C10PathCase, rec *evid.Rec) error {
		s, _ := val.UnTxt(c.S)
		err := evid.Guard("ParsePath and accessors", func() error {
			p := datamodel.ParsePath(s)
			for _, seg := range p.Segments() {
				if seg.String() == "" || strings.Contains(seg.String(), "/") {
					return fmt.Errorf("ParsePath(%q) produced the segment %q", s, seg.String())
				}
				_, _ = seg.Index()
				_ = seg.Equals(datamodel.PathSegmentOfInt(0))
			}
			_ = p.String()
			_ = p.Last().String()
			_ = p.Parent().String()
			_ = p.Pop().Len()
			_, rest := p.Shift()
			_ = rest.Len()
			for i := 0; i <= p.Len(); i++ {
				_ = p.Truncate(i).String()
			}
			_ = p.Join(p).AppendSegmentString(s).AppendSegmentInt(-5).String()
			es := datamodel.EmptyPathSegment
			_, _ = es.Index()
			_ = es.String()
			_ = datamodel.ParsePathSegment(s).String()
			return nil
		})
		if err != nil {
			return err
		}
		rec.Case(val.HashBytes([]byte(s)), strings.Contains(s, "/"))
		if rec.WantSample() && strings.Contains(s, "/") {
			rec.Sample(c)
		}
		return nil
	},
}.Reg()

func TestC10_Paths(t *testing.T) { c10Paths.Run(t) }
