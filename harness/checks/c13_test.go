package checks

import (
	"encoding/json"
	"fmt"
	"os"
	"os/exec"
	"path/filepath"
	"strings"
	"testing"

	"github.com/ipld/go-ipld-prime/schema"
	gengo "github.com/ipld/go-ipld-prime/schema/gen/go"
	"pgregory.net/rapid"

	"verif/evid"
	"verif/tschema"
)

// C13: generated code compiles and behaves exactly like the reflection binding.

func genSchemaFor(seed int) tschema.Schema {
	g := rapid.Custom(func(t *rapid.T) tschema.Schema {
		return tschema.Draw(t, tschema.GenOpts{MaxTypes: 7, GenOnly: true, NoAnyInUnion: true})
	})
	return g.Example(seed)
}

// fixed regression type systems that are generated on every run
var c13Fixed = []string{
	`{"types":[{"name":"T0","kind":"struct","fields":[{"name":"fa","type":"Int","optional":true,"nullable":true},{"name":"fb","type":"String","rename":"r1"},{"name":"fc","type":"Bool","optional":true}],"repr":"map"},{"name":"T1","kind":"struct","fields":[{"name":"fa","type":"T0","nullable":true},{"name":"fb","type":"Int","optional":true},{"name":"fc","type":"String","optional":true,"nullable":true}],"repr":"tuple"},{"name":"T2","kind":"struct","fields":[{"name":"fa","type":"String"},{"name":"fb","type":"String"}],"repr":"stringjoin","delim":":"},{"name":"T3","kind":"union","repr":"keyed","members":[{"type":"T1","discr":"d0"},{"type":"T2","discr":"d1"},{"type":"Int","discr":"d2"}]},{"name":"T4","kind":"union","repr":"kinded","members":[{"type":"T0"},{"type":"T1"},{"type":"T2"},{"type":"Int"},{"type":"Bool"}]},{"name":"T5","kind":"union","repr":"stringprefix","delim":":","members":[{"type":"T2","discr":"p0"},{"type":"String","discr":"p1"}]},{"name":"T6","kind":"map","elem":"T4","elem_nullable":true},{"name":"T7","kind":"list","elem":"T3","elem_nullable":true},{"name":"T8","kind":"struct","fields":[{"name":"fa","type":"T6"},{"name":"fb","type":"T7","optional":true},{"name":"fc","type":"T5","nullable":true},{"name":"fd","type":"Link","optional":true}],"repr":"map"}]}`,
}

func TestC13_GenDiff(t *testing.T) {
	goBin := os.Getenv("VERIF_GO")
	if goBin == "" {
		goBin = "go"
	}
	scratch := os.Getenv("VERIF_SCRATCHDIR")
	if scratch == "" {
		var err error
		scratch, err = os.MkdirTemp("", "c13-")
		if err != nil {
			t.Skip("no scratch space")
		}
		defer os.RemoveAll(scratch)
	}
	rec := evid.New("C13", "generate", "type systems within the generator's documented feature set (structs map/tuple/stringjoin incl. optional/nullable/renames, typed maps and lists incl. nullable values, unions keyed/kinded/stringprefix with both memory layouts, scalars, links) drawn by the schema generator plus fixed regression specs; each is generated afresh with gengo.Generate from the working tree and compiled with the differential test; non-trivial = ≥3 non-scalar types; distinct by spec; 'programs' = packages generated and compiled")
	defer rec.Flush()
	mod, tmpl, err := c13Module(scratch, fmt.Sprintf("gendiff-%d", evid.Shard()))
	if err != nil {
		t.Fatal(err)
	}
	nsys := evid.Scale(8, 160)                // ×VERIF_THOROUGH_X = 640 packages
	perPkgQuick, perPkgThorough := 1500, 3000 // base budgets: ×5 quick, ×4 thorough
	var specs []tschema.Schema
	if evid.Shard() == 0 {
		for _, f := range c13Fixed {
			var s tschema.Schema
			if err := json.Unmarshal([]byte(f), &s); err != nil {
				t.Fatal(err)
			}
			specs = append(specs, s)
		}
	}
	for i := 0; len(specs) < nsys+len(c13Fixed)*boolInt(evid.Shard() == 0); i++ {
		specs = append(specs, genSchemaFor(evid.Seed()*100003+evid.Shard()*1009+i))
	}
	var pkgs []string
	for i, s := range specs {
		name := fmt.Sprintf("s%d", i)
		if gerr := c13Materialise(mod, name, s, i, string(tmpl), perPkgQuick, perPkgThorough); gerr != nil {
			evid.SaveFailure("C13", "generate", map[string]any{"schema": s}, gerr)
			sj, _ := json.Marshal(s)
			t.Fatalf("C13.generate: the generator failed on a schema within its feature set: %v\n%s", gerr, sj)
		}
		pkgs = append(pkgs, name)
		nonScalar := len(s.Types)
		rec.Case(uint64(i)<<32|uint64(evid.Shard()), nonScalar >= 3, fmt.Sprintf("types:%d", nonScalar))
		if rec.WantSample() {
			rec.Sample(map[string]any{"spec": s})
		}
	}
	// compile everything first: "the Go package it generates compiles"
	env := append(os.Environ(), "GOFLAGS=-mod=mod", "GOPROXY=off", "GOSUMDB=off", "GOTOOLCHAIN=local", "VERIF_NSHARDS=1", "VERIF_SHARD="+fmt.Sprint(evid.Shard()))
	run := func(args ...string) (string, error) {
		cmd := exec.Command(goBin, args...)
		cmd.Dir = mod
		cmd.Env = env
		out, err := cmd.CombinedOutput()
		return string(out), err
	}
	if out, err := run("vet", "-tags", "verif", "./..."); err != nil && strings.Contains(out, "cannot find module") {
		t.Fatalf("infrastructure: %s", out)
	}
	if out, err := run("build", "-tags", "verif", "./..."); err != nil {
		evid.SaveFailure("C13", "generate", map[string]any{"output": out}, fmt.Errorf("generated code does not compile"))
		t.Fatalf("C13.generate: generated code does not compile:\n%s", clipStr(out, 4000))
	}
	rec.Extra("programs", len(pkgs))
	out, terr := run("test", "-tags", "verif", "-count=1", "-timeout", "1500s", "./...")
	if terr != nil {
		t.Fatalf("C13 differential failed in a generated package (the failing case is saved as a replay file):\n%s", clipStr(out, 6000))
	}
}

// c13Materialise writes one generated package (spec, generated code, differential test).
func c13Materialise(mod, name string, s tschema.Schema, layout int, tmpl string, quick, thorough int) error {
	dir := filepath.Join(mod, name)
	_ = os.MkdirAll(dir, 0o777)
	ts, err := s.BuildMinimal()
	if err != nil {
		return fmt.Errorf("spec does not build: %w", err)
	}
	adj := &gengo.AdjunctCfg{CfgUnionMemlayout: map[schema.TypeName]string{}}
	for j, ty := range s.Types {
		if ty.Kind == "union" {
			adj.CfgUnionMemlayout[ty.Name] = []string{"embedAll", "interface"}[(layout+j)%2]
		}
	}
	sj, _ := json.Marshal(s)
	_ = os.WriteFile(filepath.Join(dir, "schema.json"), sj, 0o666)
	_ = os.WriteFile(filepath.Join(dir, "layout.txt"), []byte(fmt.Sprint(layout)), 0o666)
	if gerr := evid.Guard("gengo.Generate", func() error { gengo.Generate(dir, name, *ts, adj); return nil }); gerr != nil {
		return gerr
	}
	src := strings.ReplaceAll(tmpl, "PKGNAME", name)
	src = strings.ReplaceAll(src, "QUICKCASES", fmt.Sprint(quick))
	src = strings.ReplaceAll(src, "THOROUGHCASES", fmt.Sprint(thorough))
	return os.WriteFile(filepath.Join(dir, "gendiff_test.go"), []byte(src), 0o666)
}

func c13Module(scratch, sub string) (string, string, error) {
	mod := filepath.Join(scratch, sub)
	if err := os.MkdirAll(mod, 0o777); err != nil {
		return "", "", err
	}
	harness, _ := filepath.Abs("..")
	repo := "/repo"
	if alt := os.Getenv("VERIF_REPO"); alt != "" {
		repo = alt
	}
	gomod := fmt.Sprintf("module gendiff\n\ngo 1.25.7\n\nrequire (\n\tgithub.com/ipld/go-ipld-prime v0.0.0\n\tpgregory.net/rapid v1.3.0\n\tverif v0.0.0\n)\n\nreplace github.com/ipld/go-ipld-prime => %s\n\nreplace verif => %s\n", repo, harness)
	_ = os.WriteFile(filepath.Join(mod, "go.mod"), []byte(gomod), 0o666)
	if b, err := os.ReadFile(filepath.Join(harness, "go.sum")); err == nil {
		_ = os.WriteFile(filepath.Join(mod, "go.sum"), b, 0o666)
	}
	tmpl, err := os.ReadFile(filepath.Join(harness, "gendiff", "gendiff_test.go.tmpl"))
	return mod, string(tmpl), err
}

// c13ReplayCase is the shape of a saved lockstep case (the differential test's own case type).
type c13ReplayCase struct {
	Schema tschema.Schema  `json:"schema"`
	Layout int             `json:"layout"`
	Rest   json.RawMessage `json:"-"`
}

func init() {
	// a saved C13 case is replayed inside a package regenerated from the schema it carries
	evid.RegisterRaw("C13", "lockstep", func(raw json.RawMessage) error {
		var c c13ReplayCase
		if err := json.Unmarshal(raw, &c); err != nil {
			return fmt.Errorf("cannot decode case: %w", err)
		}
		scratch, err := os.MkdirTemp("", "c13r-")
		if err != nil {
			return fmt.Errorf("INFRA: %v", err)
		}
		defer os.RemoveAll(scratch)
		mod, tmpl, err := c13Module(scratch, "gendiff-replay")
		if err != nil {
			return fmt.Errorf("INFRA: %v", err)
		}
		if err := c13Materialise(mod, "s0", c.Schema, c.Layout, tmpl, 1, 1); err != nil {
			return fmt.Errorf("the generator failed: %v", err)
		}
		cf := filepath.Join(scratch, "case.json")
		_ = os.WriteFile(cf, raw, 0o666)
		goBin := os.Getenv("VERIF_GO")
		if goBin == "" {
			goBin = "go"
		}
		cmd := exec.Command(goBin, "test", "-tags", "verif", "-count=1", "-v", "-run", "^TestGenDiff$", "./s0/")
		cmd.Dir = mod
		cmd.Env = append(os.Environ(), "GOFLAGS=-mod=mod", "GOPROXY=off", "GOSUMDB=off", "GOTOOLCHAIN=local", "VERIF_C13_REPLAY="+cf, "VERIF_OUT=")
		out, _ := cmd.CombinedOutput()
		if os.Getenv("VERIF_STACK") != "" {
			fmt.Println(string(out))
		}
		switch {
		case strings.Contains(string(out), "C13-REPLAY-PASS"):
			return nil
		case strings.Contains(string(out), "C13-REPLAY-FAIL"):
			i := strings.Index(string(out), "C13-REPLAY-FAIL")
			return fmt.Errorf("%s", clipStr(string(out)[i:], 1500))
		default:
			return fmt.Errorf("generated package does not build or run: %s", clipStr(string(out), 2000))
		}
	})
}

func boolInt(b bool) int {
	if b {
		return 1
	}
	return 0
}

func clipStr(s string, n int) string {
	if len(s) > n {
		return s[:n] + "…"
	}
	return s
}
