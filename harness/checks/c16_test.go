package checks

import (
	"bytes"
	"fmt"
	"io"
	"strings"
	"testing"

	"github.com/ipld/go-ipld-prime/datamodel"
	"github.com/ipld/go-ipld-prime/linking"
	cidlink "github.com/ipld/go-ipld-prime/linking/cid"
	"github.com/ipld/go-ipld-prime/storage/memstore"
	"github.com/ipld/go-ipld-prime/traversal"
	"pgregory.net/rapid"

	"verif/evid"
	"verif/graph"
	"verif/known"
	"verif/nodes"
	"verif/refcbor"
	"verif/refsel"
	"verif/selx"
	"verif/val"
)

// C16: transforms are pure functional updates, also across links.

type C16Step struct {
	Path          []string   `json:"path"` // val.Txt segments
	Edit          graph.Edit `json:"edit"`
	CreateParents bool       `json:"create_parents"`
}

type C16Case struct {
	G     graph.Graph `json:"graph"`
	Steps []C16Step   `json:"steps"`
}

// twoStore wires a link system that reads from the original store and from a separate write
// store, and writes only to the latter, so that every write is observable.
func twoStore(r *graph.Real) (*traversal.Config, *memstore.Store) {
	w := &memstore.Store{Bag: map[string][]byte{}}
	cfg := selx.Config(r)
	cfg.LinkSystem.SetWriteStorage(w)
	cfg.LinkSystem.StorageReadOpener = func(lc linking.LinkContext, l datamodel.Link) (io.Reader, error) {
		if b, ok := r.Mem.Bag[l.Binary()]; ok {
			return bytes.NewReader(b), nil
		}
		if b, ok := w.Bag[l.Binary()]; ok {
			return bytes.NewReader(b), nil
		}
		return nil, fmt.Errorf("block not found")
	}
	return cfg, w
}

func copyBag(m map[string][]byte) map[string]string {
	out := map[string]string{}
	for k, v := range m {
		out[k] = string(v)
	}
	return out
}

func sameBag(a map[string]string, m map[string][]byte) bool {
	if len(a) != len(m) {
		return false
	}
	for k, v := range m {
		if a[k] != string(v) {
			return false
		}
	}
	return true
}

func c16Check(c C16Case, rec *evid.Rec) error {
	real, err := graph.Realise(c.G, nil)
	if err != nil {
		return err
	}
	cfg, wstore := twoStore(real)
	store := c.G.Store()
	curV := c.G.Root
	curN := real.Root
	readBag := copyBag(real.Mem.Bag)
	nt := false
	var cls []string
	for si, st := range c.Steps {
		segs := make([]string, len(st.Path))
		for i, s := range st.Path {
			segs[i], _ = val.UnTxt(s)
		}
		path := mkPath(segs)
		where := fmt.Sprintf("step %d: %s at %q (createParents=%v)", si, st.Edit.Kind, path.String(), st.CreateParents)
		want, werr := graph.Update(curV, store, segs, st.Edit, st.CreateParents)
		type call struct {
			path string
			arg  *val.V
		}
		var calls []call
		var cbErr error
		fn := func(p traversal.Progress, n datamodel.Node) (datamodel.Node, error) {
			cl := call{path: p.Path.String()}
			if n != nil && !n.IsAbsent() {
				v, err := nodes.Read(n)
				if err != nil && cbErr == nil {
					cbErr = err
				}
				cl.arg = &v
			}
			calls = append(calls, cl)
			switch st.Edit.Kind {
			case "replace":
				return nodes.MustBuild(st.Edit.V), nil
			case "identity":
				return n, nil
			default:
				return nil, nil
			}
		}
		var out datamodel.Node
		gerr := evid.Guard("FocusedTransform", func() error {
			var e error
			out, e = traversal.Progress{Cfg: cfg}.FocusedTransform(curN, path, fn, st.CreateParents)
			return e
		})
		if gerr != nil && strings.HasPrefix(gerr.Error(), "PANIC") {
			return fmt.Errorf("%s: %v", where, gerr)
		}
		// the input is never modified
		if iv, err := nodes.Read(curN); err != nil || !val.Equal(iv, curV, val.Ordered) {
			return fmt.Errorf("%s: the input node changed: %s (err %v)", where, val.Diff(iv, curV), err)
		}
		if !sameBag(readBag, real.Mem.Bag) {
			return fmt.Errorf("%s: the blocks in the read store changed", where)
		}
		if (gerr == nil) != (werr == nil) {
			return fmt.Errorf("%s: FocusedTransform err=%v, but the reference update says err=%v", where, gerr, werr)
		}
		if gerr != nil {
			cls = append(cls, "error-case")
			break
		}
		if cbErr != nil {
			return fmt.Errorf("%s: callback argument unreadable: %v", where, cbErr)
		}
		got, err := nodes.Full.Read(out)
		if err != nil {
			return fmt.Errorf("%s: result inconsistent: %w", where, err)
		}
		if !val.Equal(got, want.Root, val.Ordered) {
			return fmt.Errorf("%s: result differs from the pure functional update: %s (got vs want)", where, val.Diff(got, want.Root))
		}
		if len(calls) == 0 {
			return fmt.Errorf("%s: the transform function was never called", where)
		}
		for _, cl := range calls {
			ok := false
			for _, w := range want.Callbacks {
				if w.Path == cl.path && ((w.Arg == nil) == (cl.arg == nil)) && (w.Arg == nil || val.Equal(*w.Arg, *cl.arg, val.Ordered)) {
					ok = true
				}
			}
			if !ok {
				a := "nil"
				if cl.arg != nil {
					a = cl.arg.Short(100)
				}
				return fmt.Errorf("%s: callback saw (%q, %s), which is not the node at the target (expected %q)", where, cl.path, a, want.Callbacks[0].Path)
			}
		}
		for _, nb := range want.NewBlocks {
			// under its sha2-256 link, or — a block that was reached through a link carrying it — under such a link
			// again (which of the two the parent holds is part of the comparison of the result above)
			enc, _ := refcbor.Encode(nb)
			found := false
			for _, k := range []string{graph.CidOf(nb), graph.IdCidOf(nb)} {
				if b, ok := wstore.Bag[k]; ok && bytes.Equal(b, enc) {
					found = true
				}
				if b, ok := real.Mem.Bag[k]; ok && bytes.Equal(b, enc) {
					found = true
				}
				store[k] = nb.SortKeys(val.LessLenFirst)
			}
			if !found {
				return fmt.Errorf("%s: updated block %s was not stored under its new link", where, nb.Short(100))
			}
		}
		for k := range wstore.Bag {
			if _, ok := store[k]; !ok {
				return fmt.Errorf("%s: a block was written that is not part of the updated graph (key %x)", where, k)
			}
		}
		// the same transform once more with a storage whose first (then: last) commit fails: it must fail too,
		// never hand out a new root whose links point at a block that was not stored
		if len(want.NewBlocks) > 0 {
			for _, failAt := range []int{1, len(want.NewBlocks)} {
				tmpls := cidlink.DefaultLinkSystem()
				tmpls.SetWriteStorage(&memstore.Store{Bag: map[string][]byte{}})
				inner, commits := tmpls.StorageWriteOpener, 0
				saved := cfg.LinkSystem.StorageWriteOpener
				cfg.LinkSystem.StorageWriteOpener = func(lc linking.LinkContext) (io.Writer, linking.BlockWriteCommitter, error) {
					w, commit, err := inner(lc)
					if err != nil {
						return nil, nil, err
					}
					return w, func(l datamodel.Link) error {
						commits++
						if commits == failAt {
							return fmt.Errorf("injected commit failure")
						}
						return commit(l)
					}, nil
				}
				var out2 datamodel.Node
				ferr := evid.Guard("FocusedTransform", func() error {
					var e error
					out2, e = traversal.Progress{Cfg: cfg}.FocusedTransform(curN, path, fn, st.CreateParents)
					return e
				})
				cfg.LinkSystem.StorageWriteOpener = saved
				if commits >= failAt && ferr == nil {
					return fmt.Errorf("%s: commit #%d of the changed blocks failed, yet FocusedTransform returned a new root (%v) without error", where, failAt, out2 != nil)
				}
				if ferr != nil && strings.HasPrefix(ferr.Error(), "PANIC") {
					return fmt.Errorf("%s (commit #%d failing): %v", where, failAt, ferr)
				}
				cls = append(cls, "commit-failure")
			}
		}
		if len(segs) >= 2 || len(want.NewBlocks) > 0 || si >= 1 || st.Edit.Kind == "remove" || want.Callbacks[0].Arg == nil {
			nt = true
		}
		cls = append(cls, "edit:"+st.Edit.Kind)
		if len(want.NewBlocks) > 0 {
			cls = append(cls, "below-link")
		}
		if want.Callbacks[0].Arg == nil {
			cls = append(cls, "insertion")
		}
		curV, curN = want.Root, out
	}
	b, _ := jsonMarshal(c)
	rec.Case(val.HashBytes(b), nt, cls...)
	if nt && rec.WantSample() && len(b) < 3000 {
		rec.Sample(c)
	}
	return nil
}

// drawTarget draws a target path by walking down the abstract graph.
func drawTarget(t *rapid.T, root val.V, store map[string]val.V) (segs []string, kind string) {
	cur := root
	steps := rapid.IntRange(0, 5).Draw(t, "depth")
	for s := 0; s < steps; s++ {
		for cur.K == val.Link {
			b, ok := store[cur.S]
			if !ok {
				break
			}
			cur = b
		}
		ch := graph.Children(cur)
		mode := rapid.IntRange(0, 9).Draw(t, "mode")
		switch {
		case cur.K == val.Map && mode == 0:
			segs = append(segs, rapid.SampledFrom([]string{"new", "zz", "n2"}).Draw(t, "newkey"))
			if rapid.Bool().Draw(t, "deeper") {
				segs = append(segs, rapid.SampledFrom([]string{"p", "q", "0"}).Draw(t, "parent"))
				return segs, "missing-parents"
			}
			return segs, "new-key"
		case cur.K == val.List && mode == 0:
			segs = append(segs, "-")
			return segs, "append"
		case cur.K == val.List && mode == 1:
			segs = append(segs, rapid.SampledFrom([]string{"99", "x", ""}).Draw(t, "badidx"))
			return segs, "bad-index"
		case len(ch) == 0:
			if cur.K != val.Map && cur.K != val.List && rapid.IntRange(0, 3).Draw(t, "pastscalar") == 0 {
				segs = append(segs, "a")
				return segs, "past-scalar"
			}
			return segs, "existing"
		}
		e := ch[rapid.IntRange(0, len(ch)-1).Draw(t, "child")]
		segs = append(segs, e.K)
		cur = e.V
	}
	return segs, "existing"
}

var c16Focused = evid.Part[C16Case]{
	Prop: "C16", Name: "focused", Quick: 3000, Thorough: 1200000,
	Rule: "block graph × sequence of 1-4 FocusedTransforms (each applied to the previous result): target = existing position (map value, list element, below links, root), new map key, list append, missing parents with/without createParents, out-of-bounds / non-numeric index, past a scalar; edit = replace by a drawn value, identity, remove; separate read and write stores; every step that rewrites blocks is repeated with a storage whose first / last commit fails and must then fail; non-trivial = target depth ≥2, below a link, a later step of a sequence, a removal or an insertion; distinct by (graph, steps)",
	Gen: func(t *rapid.T) C16Case {
		o := graph.DefaultOpts()
		o.IdAliases = true
		o.LinkHeavy = rapid.Bool().Draw(t, "linkheavy")
		g := graph.Draw(t, o)
		if g.Root.K == val.Null {
			// datamodel.Null's prototype deliberately has no builder ("cannot build null nodes"),
			// so a bare null is not a possible transform root
			g.Root = val.MkList(g.Root)
		}
		c := C16Case{G: g}
		store := g.Store()
		cur := g.Root
		n := rapid.IntRange(1, 4).Draw(t, "nsteps")
		for i := 0; i < n; i++ {
			segs, kind := drawTarget(t, cur, store)
			st := C16Step{CreateParents: rapid.Bool().Draw(t, "createparents")}
			if kind == "append" && rapid.Bool().Draw(t, "appenddeep") {
				segs = append(segs, "k")
				st.CreateParents = true
			}
			for _, s := range segs {
				st.Path = append(st.Path, val.Txt(s))
			}
			ek := "replace"
			if kind == "existing" {
				ek = rapid.SampledFrom([]string{"replace", "replace", "identity", "remove"}).Draw(t, "edit")
				if len(segs) == 0 && ek == "remove" {
					ek = "identity"
				}
			}
			st.Edit = graph.Edit{Kind: ek}
			if ek == "replace" {
				p := val.Profile{MaxDepth: 2, MaxWidth: 3, Float: true, Bytes: true, Null: true, SmallKeys: true, IntsSmall: true}
				st.Edit.V = val.DrawV(t, &p, "newvalue")
				if len(g.Blocks) > 0 && rapid.IntRange(0, 4).Draw(t, "aslink") == 0 {
					st.Edit.V = val.MkLink(graph.CidOf(g.Blocks[rapid.IntRange(0, len(g.Blocks)-1).Draw(t, "blk")]))
				}
				if len(segs) == 0 {
					// the result is built with the root's own prototype: only a value of the
					// root's kind is acceptable at that position
					switch cur.K {
					case val.Map:
						st.Edit.V = val.MkMap(val.Ent{K: "r", V: st.Edit.V})
					case val.List:
						st.Edit.V = val.MkList(st.Edit.V)
					default:
						st.Edit.V = cur
					}
				}
			}
			c.Steps = append(c.Steps, st)
			// advance the abstract graph so that later targets exist in the updated tree
			if r, err := graph.Update(cur, store, segs, st.Edit, st.CreateParents); err == nil {
				cur = r.Root
				for _, nb := range r.NewBlocks {
					store[graph.CidOf(nb)] = nb.SortKeys(val.LessLenFirst)
					store[graph.IdCidOf(nb)] = nb.SortKeys(val.LessLenFirst)
				}
			} else {
				break
			}
		}
		return c
	},
	Check: c16Check,
}.Reg()

func TestC16_Focused(t *testing.T) { c16Focused.Run(t) }

// ---------------------------------------------------------------------------------------
// selector-driven transform

type C16WalkCase struct {
	G graph.Graph `json:"graph"`
	S refsel.Sel  `json:"selector"`
	// KeepContainers: the transform function answers a matched map or list with a freshly built node of equal
	// content (a replacement all the same: nothing below it is visited) and changes matched scalars only
	KeepContainers bool `json:"keep_containers,omitempty"`
	// Identity: the function hands matched containers (and bytes) back as they are — the very node it was given —
	// and changes the other matched scalars: nodes handed back count as not replaced, the walk continues below them
	Identity bool `json:"identity,omitempty"`
	// KindRoot: the root node is built by the kind-specific prototype of the implementation (not Any)
	KindRoot bool `json:"kind_root,omitempty"`
	// RootImpl: the implementation holding the root (default basicnode Any)
	RootImpl string `json:"root_impl,omitempty"`
}

// c16F is the deterministic transform applied to every matched node.
func c16F(v val.V) val.V {
	return val.MkMap(val.Ent{K: "was", V: val.MkString(v.K.String())}, val.Ent{K: "h", V: val.MkInt(int64(v.Hash() % 1000))})
}

func stripSubsets(s refsel.Sel) refsel.Sel {
	s.Subset = nil
	if s.Next != nil {
		n := stripSubsets(*s.Next)
		s.Next = &n
	}
	if s.Seq != nil {
		n := stripSubsets(*s.Seq)
		s.Seq = &n
	}
	for i := range s.Fields {
		s.Fields[i].Sel = stripSubsets(s.Fields[i].Sel)
	}
	for i := range s.Members {
		s.Members[i] = stripSubsets(s.Members[i])
	}
	return s
}

func c16WalkCheck(c C16WalkCase, rec *evid.Rec) error {
	sel := stripSubsets(c.S)
	c16F := c16F
	if c.KeepContainers {
		c16F = func(v val.V) val.V {
			if v.K == val.Map || v.K == val.List {
				return v
			}
			return val.MkMap(val.Ent{K: "was", V: val.MkString(v.K.String())}, val.Ent{K: "h", V: val.MkInt(int64(v.Hash() % 1000))})
		}
	}
	want := refsel.Transform(c.G, sel, c16F)
	keep := func(v val.V) bool { return false }
	if c.Identity {
		keep = func(v val.V) bool { return v.K == val.Map || v.K == val.List || v.K == val.Bytes }
		want = refsel.TransformKeeping(c.G, sel, c16F, keep)
	}
	if len(want.Targets) > 2000 {
		rec.Class("skipped:too-big")
		return nil
	}
	var rootProto datamodel.NodePrototype
	if c.KindRoot {
		rootProto = nodes.ProtoFor(nodes.BasicKind, c.G.Root.K)
	}
	if c.RootImpl != "" {
		rootProto = nodes.ProtoFor(nodes.Impl(c.RootImpl), c.G.Root.K)
	}
	real, err := graph.Realise(c.G, rootProto)
	if err != nil {
		return err
	}
	cfg, wstore := twoStore(real)
	compiled, err := selx.CompileSpec(sel)
	if err != nil {
		return fmt.Errorf("selector %s does not compile: %w", sel, err)
	}
	readBag := copyBag(real.Mem.Bag)
	var targets []refsel.Visit
	var cbErr error
	var out datamodel.Node
	gerr := evid.Guard("WalkTransforming", func() error {
		var e error
		out, e = traversal.Progress{Cfg: cfg}.WalkTransforming(real.Root, compiled, func(p traversal.Progress, n datamodel.Node) (datamodel.Node, error) {
			v, err := nodes.Read(n)
			if err != nil && cbErr == nil {
				cbErr = err
			}
			targets = append(targets, refsel.Visit{Path: p.Path.String(), Reason: "m", Value: v})
			if keep(v) {
				return n, nil
			}
			return nodes.MustBuild(c16F(v)), nil
		})
		return e
	})
	if gerr != nil {
		return fmt.Errorf("WalkTransforming with %s failed: %w", sel, gerr)
	}
	if cbErr != nil {
		return fmt.Errorf("callback argument unreadable: %v", cbErr)
	}
	if iv, err := nodes.Read(real.Root); err != nil || !val.Equal(iv, c.G.Root, val.Ordered) {
		return fmt.Errorf("WalkTransforming (%s) changed its input: %s", sel, val.Diff(iv, c.G.Root))
	}
	if !sameBag(readBag, real.Mem.Bag) {
		return fmt.Errorf("WalkTransforming (%s) changed blocks in the read store", sel)
	}
	if d := selx.DiffVisits(targets, want.Targets); d != "" {
		return fmt.Errorf("WalkTransforming (%s): the nodes handed to the transform function differ from the selector's matches: %s", sel, d)
	}
	got, err := nodes.Full.Read(out)
	if err != nil {
		return fmt.Errorf("WalkTransforming (%s): result inconsistent: %w", sel, err)
	}
	cls := []string{fmt.Sprintf("crossed-link:%v", want.Crossed), fmt.Sprintf("targets:%v", len(want.Targets) > 0)}
	if !val.Equal(got, want.Relinked, val.Ordered) {
		if want.Crossed && known.Active("C16-walktransform-inlines-links") && val.Equal(got, want.Inlined, val.Ordered) {
			rec.Excluded("C16-walktransform-inlines-links")
			cls = append(cls, "known:inlined")
		} else {
			return fmt.Errorf("WalkTransforming (%s): result differs from 'every matched position replaced, everything else equal, crossed blocks re-stored and re-linked': %s (got vs want)", sel, val.Diff(got, want.Relinked))
		}
	} else {
		for _, nb := range want.NewBlocks {
			k := graph.CidOf(nb)
			_, ok1 := wstore.Bag[k]
			_, ok2 := real.Mem.Bag[k]
			if !ok1 && !ok2 {
				return fmt.Errorf("WalkTransforming (%s): transformed block %s is linked but was not stored", sel, nb.Short(100))
			}
		}
	}
	b, _ := jsonMarshal(c)
	nt := len(want.Targets) > 0 && (want.Crossed || len(want.Targets) >= 2)
	rec.Case(val.HashBytes(b), nt, cls...)
	if nt && rec.WantSample() && len(b) < 2500 {
		rec.Sample(map[string]any{"selector": sel.String(), "root": c.G.Root.String(), "blocks": len(c.G.Blocks), "targets": len(want.Targets)})
	}
	return nil
}

var c16Walk = evid.Part[C16WalkCase]{
	Prop: "C16", Name: "walking", Quick: 2500, Thorough: 1000000,
	Rule: "(graph, selector) from the C07 generators (subset bounds removed: the transform contract does not define slicing) with WalkTransforming and a deterministic function of the matched value (in a third of the cases one that answers matched containers with a freshly built node of equal content: still a replacement, nothing below it is visited — and in a quarter one that hands matched containers and bytes back as the very node it was given: not a replacement, the walk continues below; the root is built by Any or by the kind-specific prototype); compared with the reference top-down replacement; non-trivial = at least one target and (a link crossed or ≥2 targets); distinct by (graph, selector)",
	Gen: func(t *rapid.T) C16WalkCase {
		c := genGraphSel(t, rapid.IntRange(1, 4).Draw(t, "seldepth"))
		w := C16WalkCase{G: c.G, S: c.S, KindRoot: rapid.Bool().Draw(t, "kindroot")}
		if rapid.IntRange(0, 2).Draw(t, "rootimpl") == 0 {
			w.RootImpl = string(rapid.SampledFrom(nodes.Impls).Draw(t, "impl"))
		}
		switch rapid.IntRange(0, 3).Draw(t, "fmode") {
		case 0:
			w.KeepContainers = true
		case 1:
			w.Identity = true
		}
		return w
	},
	Check: c16WalkCheck,
}.Reg()

func TestC16_Walking(t *testing.T) { c16Walk.Run(t) }
