package checks

import (
	"fmt"
	"testing"

	"github.com/ipld/go-ipld-prime/datamodel"
	"github.com/ipld/go-ipld-prime/node/bindnode"
	"github.com/ipld/go-ipld-prime/node/gendemo"
	"pgregory.net/rapid"

	"verif/evid"
	"verif/nodes"
	"verif/tschema"
	"verif/typedx"
	"verif/val"
)

// C12 on the typed engines: struct and typed-map assemblers (type level and representation level) of
// bindnode over drawn schemas and of the checked-in generated code, with repeated keys injected.
// A map of ≥2 entries in either view is always a struct or a typed map (keyed unions have exactly one
// entry), so every injection point is one where the repeated-key rule applies.

type C12TypedCase struct {
	S       *tschema.Schema `json:"schema,omitempty"` // nil: gendemo
	Type    string          `json:"type"`
	Level   int             `json:"level"`
	TV      tschema.TV      `json:"value"`
	GenDemo val.V           `json:"gendemo_value"`
	Prog    []byte          `json:"prog"`
	Inj     []C12Inj        `json:"inj"`
	// Reuse: after the first build the builder is Reset and assembles a second value of the same type
	Reuse    bool       `json:"reuse,omitempty"`
	TV2      tschema.TV `json:"value2"`
	GenDemo2 val.V      `json:"gendemo_value2"`
}

func c12TypedCheck(c C12TypedCase, rec *evid.Rec) error {
	var np datamodel.NodePrototype
	var tview, rview val.V
	engine := "bindnode"
	if c.S == nil {
		engine = "gendemo"
		tview, rview = c.GenDemo, c.GenDemo
		switch c.Type {
		case "Msg3":
			np = gendemo.Type.Msg3
			if c.Level == 1 {
				np = gendemo.Type.Msg3__Repr
			}
		default:
			np = gendemo.Type.Map__String__Msg3
			if c.Level == 1 {
				np = gendemo.Type.Map__String__Msg3__Repr
			}
		}
	} else {
		ts, err := c.S.Build()
		if err != nil {
			return fmt.Errorf("generated schema does not build: %w", err)
		}
		if err := evid.Guard("bindnode.Prototype", func() error {
			np = typedx.TypedProto(bindnode.Prototype(nil, ts.TypeByName(c.Type)), c.Level)
			return nil
		}); err != nil {
			return err
		}
		tview = tschema.TypeView(c.S, c.Type, c.TV)
		var ok bool
		rview, ok = tschema.ReprView(c.S, c.Type, c.TV)
		if !ok {
			return nil
		}
	}
	events := typedx.StripAbsent(tview)
	if c.Level == 1 {
		events = rview
	}
	a := &c12Asm{prog: nodes.NewProg(c.Prog), inj: map[int][]C12Inj{}, deferredOK: c.S == nil}
	for _, in := range c.Inj {
		a.inj[in.At] = append(a.inj[in.At], in)
	}
	what := fmt.Sprintf("%s %s builder (level %d) assembling %s", engine, c.Type, c.Level, events.Short(200))
	nb := np.NewBuilder()
	if err := evid.Guard("assembling", func() error { return a.assemble(nb, events, 0) }); err != nil {
		return fmt.Errorf("%s: %w", what, err)
	}
	var n datamodel.Node
	if err := evid.Guard("Build", func() error { n = nb.Build(); return nil }); err != nil {
		return fmt.Errorf("%s: %w", what, err)
	}
	if err := typedx.CheckViews(n, tview, rview, fmt.Sprintf("%s: after %d rejected keys", what, a.injected)); err != nil {
		return err
	}
	cls := []string{"engine:" + engine, fmt.Sprintf("level:%d", c.Level)}
	if c.Reuse {
		tview2, rview2 := c.GenDemo2, c.GenDemo2
		if c.S != nil {
			tview2 = tschema.TypeView(c.S, c.Type, c.TV2)
			var ok bool
			if rview2, ok = tschema.ReprView(c.S, c.Type, c.TV2); !ok {
				return nil
			}
		}
		events2 := typedx.StripAbsent(tview2)
		if c.Level == 1 {
			events2 = rview2
		}
		if err := evid.Guard("Reset", func() error { nb.Reset(); return nil }); err != nil {
			return fmt.Errorf("%s: %w", what, err)
		}
		a2 := &c12Asm{prog: nodes.NewProg(c.Prog), inj: map[int][]C12Inj{}, deferredOK: c.S == nil}
		if err := evid.Guard("assembling after Reset", func() error { return a2.assemble(nb, events2, 0) }); err != nil {
			return fmt.Errorf("%s, then Reset and assembling %s: %w", what, events2.Short(200), err)
		}
		var n2 datamodel.Node
		if err := evid.Guard("Build after Reset", func() error { n2 = nb.Build(); return nil }); err != nil {
			return fmt.Errorf("%s: %w", what, err)
		}
		if err := typedx.CheckViews(n2, tview2, rview2, fmt.Sprintf("%s, then Reset and assembling %s: the second node", what, events2.Short(200))); err != nil {
			return err
		}
		if err := typedx.CheckViews(n, tview, rview, what+": after its builder was Reset and reused, the first node"); err != nil {
			return err
		}
		cls = append(cls, "reset-reuse")
	}
	if a.injected > 0 {
		cls = append(cls, "dupkey-rejected")
	}
	b, _ := jsonMarshal(c)
	rec.Case(val.HashBytes(b), a.injected > 0, cls...)
	if a.injected > 0 && rec.WantSample() && len(b) < 2500 {
		rec.Sample(map[string]any{"engine": engine, "type": c.Type, "level": c.Level, "events": events.String(), "injections": c.Inj, "rejected": a.injected})
	}
	return nil
}

func countMaps2(v val.V) (idx []int) {
	i := 0
	v.Walk(func(x val.V) {
		if x.K == val.Map {
			if len(x.Ents) >= 2 {
				idx = append(idx, i)
			}
			i++
		}
	})
	return
}

var c12Typed = evid.Part[C12TypedCase]{
	Prop: "C12", Name: "typed", Quick: 3000, Thorough: 300000,
	Rule: "struct and typed-map assemblers of the typed engines (bindnode over drawn schemas; checked-in generated code of node/gendemo) at type and representation level: a conforming value assembled through drawn call styles with repeated keys (field names, renamed field names, map keys) injected before drawn entries via AssembleEntry / key AssignString / key AssignNode; each must give a repeated-key error and the finished node must satisfy the reference type and representation views as if the rejected calls had not happened; optionally the builder is then Reset and assembles a second value of the type (both nodes must satisfy their views); non-trivial = ≥1 rejection; distinct by the whole case",
	Gen: func(t *rapid.T) C12TypedCase {
		c := C12TypedCase{Level: rapid.IntRange(0, 1).Draw(t, "level"), Prog: rapid.SliceOfN(rapid.Byte(), 0, 12).Draw(t, "prog")}
		var events val.V
		if rapid.IntRange(0, 4).Draw(t, "gendemo") == 0 {
			m3 := func() val.V {
				return msg3(val.DrawInt(t, "i", false), val.DrawInt(t, "i", false), val.DrawInt(t, "i", false))
			}
			mp := func() val.V {
				v := val.V{K: val.Map, Ents: []val.Ent{}}
				for i, n := 0, rapid.IntRange(2, 4).Draw(t, "n"); i < n; i++ {
					v.Ents = append(v.Ents, val.Ent{K: fmt.Sprintf("k%d", i), V: m3()})
				}
				return v
			}
			if rapid.Bool().Draw(t, "struct") {
				c.Type, c.GenDemo, c.GenDemo2 = "Msg3", m3(), m3()
			} else {
				c.Type, c.GenDemo, c.GenDemo2 = "Map", mp(), mp()
			}
			events = c.GenDemo
		} else {
			s, typ, tv := genSchemaValue(t, tschema.GenOpts{MaxTypes: 5})
			c.S, c.Type, c.TV = &s, typ, tv
			c.TV2 = tschema.DrawTV(t, &s, typ, "tv2")
			events = typedx.StripAbsent(tschema.TypeView(&s, typ, tv))
			if c.Level == 1 {
				events, _ = tschema.ReprView(&s, typ, tv)
			}
		}
		if idx := countMaps2(events); len(idx) > 0 {
			ni := rapid.IntRange(1, 3).Draw(t, "ninj")
			for i := 0; i < ni; i++ {
				c.Inj = append(c.Inj, C12Inj{At: rapid.SampledFrom(idx).Draw(t, "at"), Pos: rapid.IntRange(1, 6).Draw(t, "pos"), Style: rapid.IntRange(0, 2).Draw(t, "style"), Which: rapid.IntRange(0, 5).Draw(t, "which")})
			}
		}
		c.Reuse = rapid.Bool().Draw(t, "reuse")
		return c
	},
	Check: c12TypedCheck,
}.Reg()

func TestC12_Typed(t *testing.T) { c12Typed.Run(t) }
