package checks

import (
	"errors"
	"fmt"
	"strings"
	"testing"

	"github.com/ipld/go-ipld-prime/node/bindnode"
	"github.com/ipld/go-ipld-prime/schema"
	"pgregory.net/rapid"

	"verif/evid"
	"verif/nodes"
	"verif/tschema"
	"verif/typedx"
	"verif/val"
)

// C09: typed builders accept exactly the data that conforms to the schema.

type C09Case struct {
	S      tschema.Schema `json:"schema"`
	Type   string         `json:"type"`
	Level  int            `json:"level"` // 0 type level, 1 representation level
	Events val.V          `json:"events"`
	Via    string         `json:"via"` // direct | dagcbor | dagcbor-relaxed | dagjson
	Ops    string         `json:"ops,omitempty"`
	Prog   []byte         `json:"prog,omitempty"` // call styles of the direct route (entry shortcut vs key assembler, ...)
}

func c09Check(c C09Case, rec *evid.Rec) error {
	ts, err := c.S.Build()
	if err != nil {
		return fmt.Errorf("generated schema does not build: %w", err)
	}
	var proto schema.TypedPrototype
	if err := evid.Guard("bindnode.Prototype", func() error { proto = bindnode.Prototype(nil, ts.TypeByName(c.Type)); return nil }); err != nil {
		return err
	}
	lvl := tschema.TypeLevel
	if c.Level == 1 {
		lvl = tschema.ReprLevel
	}
	tv, perr := tschema.Parse(&c.S, c.Type, lvl, c.Events, false)
	if errors.Is(perr, tschema.ErrUndecided) {
		rec.Class("undecided")
		return nil
	}
	conforms := perr == nil
	if c.Via == "dagcbor" && typedx.HasDup(c.Events) {
		conforms = false // the strict decoder refuses repeated keys itself
	}
	n, accepted, applicable, ferr := typedx.Feed(typedx.TypedProto(proto, c.Level), c.Events, c.Via, c.Prog)
	if !applicable {
		rec.Class("route-not-applicable")
		return nil
	}
	what := fmt.Sprintf("%s builder of %s (level %d) fed %s via %s", "bindnode", c.Type, c.Level, c.Events.Short(240), c.Via)
	if ferr != nil {
		return fmt.Errorf("%s: %v", what, ferr)
	}
	if accepted && !conforms {
		got, _ := nodes.Read(n)
		return fmt.Errorf("%s: ACCEPTED although the data %v; the node reads %s", what, perr, got.Short(200))
	}
	if !accepted && conforms {
		return fmt.Errorf("%s: REJECTED although the data conforms to the type", what)
	}
	if accepted {
		tview := tschema.TypeView(&c.S, c.Type, tv)
		rview, ok := tschema.ReprView(&c.S, c.Type, tv)
		if ok {
			if err := typedx.CheckViews(n, tview, rview, what+": accepted, but"); err != nil {
				return err
			}
		}
	}
	class := "conforming"
	if !conforms {
		class = "nonconforming"
	}
	nt := false
	if conforms {
		nt = c.Events.Size() >= 3
	} else {
		// non-conforming below the top level?
		nt = c.Events.Depth() >= 2
	}
	b, _ := jsonMarshal(c)
	cls := []string{class, "via:" + c.Via, fmt.Sprintf("level:%d", c.Level)}
	for _, o := range strings.Fields(c.Ops) {
		cls = append(cls, "op:"+o)
	}
	rec.Case(val.HashBytes(b), nt, cls...)
	if nt && rec.WantSample() && len(b) < 3000 {
		rec.Sample(map[string]any{"schema": c.S, "type": c.Type, "level": c.Level, "events": c.Events.String(), "via": c.Via, "mutations": c.Ops, "conforms": conforms})
	}
	return nil
}

func genC09(t *rapid.T, o tschema.GenOpts) C09Case {
	s, typ, tv := genSchemaValue(t, o)
	c := C09Case{S: s, Type: typ, Level: rapid.IntRange(0, 1).Draw(t, "level")}
	if c.Level == 0 {
		c.Events = typedx.StripAbsent(tschema.TypeView(&s, typ, tv))
	} else {
		c.Events, _ = tschema.ReprView(&s, typ, tv)
	}
	nm := rapid.IntRange(0, 3).Draw(t, "nmut")
	for i := 0; i < nm; i++ {
		if m, op, ok := tschema.MutateEvents(c.Events, rapid.IntRange(0, max(c.Events.Size()-1, 0)).Draw(t, "at"), rapid.IntRange(0, 400).Draw(t, "how")); ok {
			c.Events = m
			c.Ops += " " + op
		}
	}
	if rapid.IntRange(0, 3).Draw(t, "vocab") == 0 {
		words := s.Vocabulary()
		if m, ok := tschema.SubstituteWord(c.Events, rapid.IntRange(0, max(c.Events.Size()-1, 0)).Draw(t, "wat"), rapid.SampledFrom(words).Draw(t, "word"), rapid.IntRange(0, 5).Draw(t, "wwhich")); ok {
			c.Events = m
			c.Ops += " vocabWord"
		}
	}
	c.Via = rapid.SampledFrom([]string{"direct", "direct", "dagcbor", "dagcbor-relaxed", "dagjson"}).Draw(t, "via")
	if c.Via == "direct" {
		c.Prog = rapid.SliceOfN(rapid.Byte(), 0, 8).Draw(t, "prog")
	}
	return c
}

var c09Part = evid.Part[C09Case]{
	Prop: "C09", Name: "conformance", Quick: 6000, Thorough: 4000000,
	Rule:  "schema × level (type | representation) × the data-model tree of a conforming value followed by 0-3 local mutations (drop / duplicate (same or other value) / rename entry, retype, swap, nullify, extra element, string tweak touching delimiters) × route (direct assembler calls, strict DAG-CBOR, relaxed DAG-CBOR which passes duplicates on, DAG-JSON text); oracle: independent conformance parser — accepted ⇔ conforms, no panic, and an accepted node reads as the denoted value at both levels; non-trivial = conforming with ≥3 values, or non-conforming with the tree at least two levels deep; distinct by the whole case",
	Gen:   func(t *rapid.T) C09Case { return genC09(t, tschema.GenOpts{MaxTypes: 5}) },
	Check: c09Check,
}.Reg()

func TestC09_Conformance(t *testing.T) { c09Part.Run(t) }
