package checks

import (
	"bytes"
	"encoding/base64"
	"encoding/json"
	"errors"
	"fmt"
	"strconv"
	"strings"
	"testing"

	"github.com/ipfs/go-cid"
	"github.com/ipld/go-ipld-prime/codec/dagcbor"
	"github.com/ipld/go-ipld-prime/codec/dagjson"
	"github.com/ipld/go-ipld-prime/datamodel"
	"github.com/ipld/go-ipld-prime/node/bindnode"
	"github.com/ipld/go-ipld-prime/schema"
	"pgregory.net/rapid"

	"verif/evid"
	"verif/nodes"
	"verif/refcbor"
	"verif/tschema"
	"verif/val"
)

// C09: typed builders accept exactly the data that conforms to the schema.

type C09Case struct {
	S      tschema.Schema `json:"schema"`
	Type   string         `json:"type"`
	Level  int            `json:"level"` // 0 type level, 1 representation level
	Events val.V          `json:"events"`
	Via    string         `json:"via"` // direct | dagcbor | dagcbor-relaxed | dagjson
	Ops    string         `json:"ops,omitempty"`
}

func stripAbsent(v val.V) val.V {
	c := v
	if v.Items != nil {
		c.Items = make([]val.V, len(v.Items))
		for i := range v.Items {
			c.Items[i] = stripAbsent(v.Items[i])
		}
	}
	if v.Ents != nil {
		c.Ents = make([]val.Ent, 0, len(v.Ents))
		for _, e := range v.Ents {
			if e.V.K == val.Absent {
				continue
			}
			c.Ents = append(c.Ents, val.Ent{K: e.K, V: stripAbsent(e.V)})
		}
	}
	return c
}

// eventsJSON renders a tree (maps may repeat keys) as DAG-JSON text; ok=false if it has floats.
func eventsJSON(v val.V) (string, bool) {
	switch v.K {
	case val.Null:
		return "null", true
	case val.Bool:
		return strconv.FormatBool(v.B), true
	case val.Int:
		return strconv.FormatInt(v.I, 10), true
	case val.String:
		if !isValidUTF8(v.S) {
			return "", false
		}
		b, _ := json.Marshal(v.S)
		return string(b), true
	case val.Bytes:
		return `{"/":{"bytes":"` + base64.RawStdEncoding.EncodeToString([]byte(v.S)) + `"}}`, true
	case val.Link:
		c, err := cid.Cast([]byte(v.S))
		if err != nil {
			return "", false
		}
		return `{"/":"` + c.String() + `"}`, true
	case val.List:
		parts := make([]string, len(v.Items))
		for i, it := range v.Items {
			s, ok := eventsJSON(it)
			if !ok {
				return "", false
			}
			parts[i] = s
		}
		return "[" + strings.Join(parts, ",") + "]", true
	case val.Map:
		if val.IsReservedShape(v) {
			return "", false
		}
		parts := make([]string, len(v.Ents))
		for i, e := range v.Ents {
			if !isValidUTF8(e.K) {
				return "", false
			}
			s, ok := eventsJSON(e.V)
			if !ok {
				return "", false
			}
			k, _ := json.Marshal(e.K)
			parts[i] = string(k) + ":" + s
		}
		return "{" + strings.Join(parts, ",") + "}", true
	}
	return "", false
}

func isValidUTF8(s string) bool { return strings.ToValidUTF8(s, "�") == s && !strings.Contains(s, "�") }

// typedProto returns the prototype for the level.
func typedProto(p schema.TypedPrototype, level int) datamodel.NodePrototype {
	if level == 1 {
		return p.Representation()
	}
	return p
}

// c09Feed offers the events to the builder through the chosen route and reports acceptance.
func c09Feed(np datamodel.NodePrototype, events val.V, via string) (n datamodel.Node, accepted bool, applicable bool, err error) {
	nb := np.NewBuilder()
	var ferr error
	switch via {
	case "direct":
		ferr = evid.Guard("assembling", func() error { return nodes.Assemble(nb, events, nil, 0) })
	case "dagcbor", "dagcbor-relaxed":
		b, eerr := refcbor.EncodeUnsorted(events)
		if eerr != nil {
			return nil, false, false, nil
		}
		ferr = evid.Guard("dagcbor.Decode", func() error {
			return dagcbor.DecodeOptions{AllowLinks: true, RelaxedDecode: via == "dagcbor-relaxed"}.Decode(nb, bytes.NewReader(b))
		})
	case "dagjson":
		text, ok := eventsJSON(events)
		if !ok {
			return nil, false, false, nil
		}
		ferr = evid.Guard("dagjson.Decode", func() error { return dagjson.Decode(nb, strings.NewReader(text)) })
	}
	if ferr != nil {
		if strings.HasPrefix(ferr.Error(), "PANIC") {
			return nil, false, true, ferr
		}
		return nil, false, true, nil
	}
	if gerr := evid.Guard("Build", func() error { n = nb.Build(); return nil }); gerr != nil {
		return nil, false, true, gerr
	}
	return n, true, true, nil
}

func hasDup(v val.V) bool {
	return v.Has(func(x val.V) bool {
		seen := map[string]bool{}
		for _, e := range x.Ents {
			if seen[e.K] {
				return true
			}
			seen[e.K] = true
		}
		return false
	})
}

func c09Check(c C09Case, rec *evid.Rec) error {
	ts, err := c.S.Build()
	if err != nil {
		return fmt.Errorf("generated schema does not build: %w", err)
	}
	var proto schema.TypedPrototype
	if err := evid.Guard("bindnode.Prototype", func() error { proto = bindnode.Prototype(nil, ts.TypeByName(c.Type)); return nil }); err != nil {
		return err
	}
	lvl := tschema.TypeLevel
	if c.Level == 1 {
		lvl = tschema.ReprLevel
	}
	tv, perr := tschema.Parse(&c.S, c.Type, lvl, c.Events, false)
	if errors.Is(perr, tschema.ErrUndecided) {
		rec.Class("undecided")
		return nil
	}
	conforms := perr == nil
	if c.Via == "dagcbor" && hasDup(c.Events) {
		conforms = false // the strict decoder refuses repeated keys itself
	}
	n, accepted, applicable, ferr := c09Feed(typedProto(proto, c.Level), c.Events, c.Via)
	if !applicable {
		rec.Class("route-not-applicable")
		return nil
	}
	what := fmt.Sprintf("%s builder of %s (level %d) fed %s via %s", "bindnode", c.Type, c.Level, c.Events.Short(240), c.Via)
	if ferr != nil {
		return fmt.Errorf("%s: %v", what, ferr)
	}
	if accepted && !conforms {
		got, _ := nodes.Read(n)
		return fmt.Errorf("%s: ACCEPTED although the data %v; the node reads %s", what, perr, got.Short(200))
	}
	if !accepted && conforms {
		return fmt.Errorf("%s: REJECTED although the data conforms to the type", what)
	}
	if accepted {
		tview := tschema.TypeView(&c.S, c.Type, tv)
		rview, ok := tschema.ReprView(&c.S, c.Type, tv)
		if ok {
			if err := checkViews(n, tview, rview, what+": accepted, but"); err != nil {
				return err
			}
		}
	}
	class := "conforming"
	if !conforms {
		class = "nonconforming"
	}
	nt := false
	if conforms {
		nt = c.Events.Size() >= 3
	} else {
		// non-conforming below the top level?
		nt = c.Events.Depth() >= 2
	}
	b, _ := jsonMarshal(c)
	cls := []string{class, "via:" + c.Via, fmt.Sprintf("level:%d", c.Level)}
	for _, o := range strings.Fields(c.Ops) {
		cls = append(cls, "op:"+o)
	}
	rec.Case(val.HashBytes(b), nt, cls...)
	if nt && rec.WantSample() && len(b) < 3000 {
		rec.Sample(map[string]any{"schema": c.S, "type": c.Type, "level": c.Level, "events": c.Events.String(), "via": c.Via, "mutations": c.Ops, "conforms": conforms})
	}
	return nil
}

func genC09(t *rapid.T, o tschema.GenOpts) C09Case {
	s, typ, tv := genSchemaValue(t, o)
	c := C09Case{S: s, Type: typ, Level: rapid.IntRange(0, 1).Draw(t, "level")}
	if c.Level == 0 {
		c.Events = stripAbsent(tschema.TypeView(&s, typ, tv))
	} else {
		c.Events, _ = tschema.ReprView(&s, typ, tv)
	}
	nm := rapid.IntRange(0, 3).Draw(t, "nmut")
	for i := 0; i < nm; i++ {
		if m, op, ok := tschema.MutateEvents(c.Events, rapid.IntRange(0, max(c.Events.Size()-1, 0)).Draw(t, "at"), rapid.IntRange(0, 400).Draw(t, "how")); ok {
			c.Events = m
			c.Ops += " " + op
		}
	}
	if rapid.IntRange(0, 3).Draw(t, "vocab") == 0 {
		words := s.Vocabulary()
		if m, ok := tschema.SubstituteWord(c.Events, rapid.IntRange(0, max(c.Events.Size()-1, 0)).Draw(t, "wat"), rapid.SampledFrom(words).Draw(t, "word"), rapid.IntRange(0, 5).Draw(t, "wwhich")); ok {
			c.Events = m
			c.Ops += " vocabWord"
		}
	}
	c.Via = rapid.SampledFrom([]string{"direct", "direct", "dagcbor", "dagcbor-relaxed", "dagjson"}).Draw(t, "via")
	return c
}

var c09Part = evid.Part[C09Case]{
	Prop: "C09", Name: "conformance", Quick: 6000, Thorough: 600000,
	Rule: "schema × level (type | representation) × the data-model tree of a conforming value followed by 0-3 local mutations (drop / duplicate (same or other value) / rename entry, retype, swap, nullify, extra element, string tweak touching delimiters) × route (direct assembler calls, strict DAG-CBOR, relaxed DAG-CBOR which passes duplicates on, DAG-JSON text); oracle: independent conformance parser — accepted ⇔ conforms, no panic, and an accepted node reads as the denoted value at both levels; non-trivial = conforming with ≥3 values, or non-conforming with the tree at least two levels deep; distinct by the whole case",
	Gen:   func(t *rapid.T) C09Case { return genC09(t, tschema.GenOpts{MaxTypes: 5}) },
	Check: c09Check,
}.Reg()

func TestC09_Conformance(t *testing.T) { c09Part.Run(t) }
