package checks

import (
	"bytes"
	"fmt"
	"math"
	"reflect"
	"strings"
	"testing"
	"time"

	"github.com/ipfs/go-cid"
	ipld "github.com/ipld/go-ipld-prime"
	"github.com/ipld/go-ipld-prime/codec/dagcbor"
	"github.com/ipld/go-ipld-prime/codec/dagjson"
	"github.com/ipld/go-ipld-prime/datamodel"
	cidlink "github.com/ipld/go-ipld-prime/linking/cid"
	"github.com/ipld/go-ipld-prime/node/basicnode"
	"github.com/ipld/go-ipld-prime/node/bindnode"
	"github.com/ipld/go-ipld-prime/schema"
	"pgregory.net/rapid"

	"verif/evid"
	"verif/gobind"
	"verif/known"
	"verif/nodes"
	"verif/tschema"
	"verif/typedx"
	"verif/val"
)

// C19: binding Go values is faithful, reversible and a pure function of its inputs.

type C19Case struct {
	S     tschema.Schema `json:"schema"`
	Type  string         `json:"type"`
	TV    tschema.TV     `json:"value"`
	Ch    gobind.Choices `json:"go_type_choices"`
	Prog  []byte         `json:"prog"`
	Codec string         `json:"codec"` // dag-cbor | dag-json
}

func sortViewMaps(v val.V, less func(a, b string) bool, s *tschema.Schema, typ string, tv tschema.TV) val.V {
	_ = v
	sorted := tschema.SortMapsBy(s, typ, tv, less)
	return tschema.TypeView(s, typ, sorted)
}

func c19Check(c C19Case, rec *evid.Rec) error {
	ts, err := c.S.Build()
	if err != nil {
		return fmt.Errorf("generated schema does not build: %w", err)
	}
	st := ts.TypeByName(c.Type)
	b := gobind.New(&c.S, c.Ch)
	tv := b.Fit(c.Type, "root", c.TV)
	gv, err := b.ToGo(c.Type, "root", tv)
	if err != nil {
		return fmt.Errorf("HARNESS: cannot build the Go value: %v", err)
	}
	gt := gv.Type()
	tview := tschema.TypeView(&c.S, c.Type, tv)
	rview, ok := tschema.ReprView(&c.S, c.Type, tv)
	if !ok {
		return nil
	}
	view, err := b.GoView(gv, c.Type)
	if err != nil || !val.Equal(view, tview, val.Ordered) {
		return fmt.Errorf("HARNESS: independent reflection walk of the Go value disagrees with the typed value: %s (err %v)", val.Diff(view, tview), err)
	}
	what := fmt.Sprintf("Go type %s bound to %s", gt, c.Type)
	// 1. Wrap exposes exactly the data held in the value
	var n schema.TypedNode
	if err := evid.Guard("bindnode.Wrap", func() error { n = bindnode.Wrap(gv.Addr().Interface(), st); return nil }); err != nil {
		return fmt.Errorf("%s: %v", what, err)
	}
	if err := typedx.CheckViews(n, tview, rview, what+": Wrap, but"); err != nil {
		return err
	}
	// a second Wrap of the same value is equivalent
	var nAgain schema.TypedNode
	if err := evid.Guard("bindnode.Wrap (again)", func() error { nAgain = bindnode.Wrap(gv.Addr().Interface(), st); return nil }); err != nil {
		return fmt.Errorf("%s: second Wrap: %v", what, err)
	}
	if again, err := nodes.FullTyped.Read(nAgain); err != nil || !val.Equal(again, tview, val.Ordered) {
		return fmt.Errorf("%s: a second Wrap reads differently: %s (err %v)", what, val.Diff(again, tview), err)
	}
	// 2. build through the prototype for the same Go type, unwrap, compare the Go data
	var proto schema.TypedPrototype
	if err := evid.Guard("bindnode.Prototype", func() error {
		proto = bindnode.Prototype(reflect.New(gt).Interface(), st)
		return nil
	}); err != nil {
		return fmt.Errorf("%s: %v", what, err)
	}
	for lvl, src := range []val.V{tview, rview} {
		nbReuse := typedx.TypedProto(proto, lvl).NewBuilder()
		if err := evid.Guard("assembling", func() error { return nodes.Assemble(nbReuse, src, nodes.NewProg(c.Prog), 0) }); err != nil {
			return fmt.Errorf("%s: building level %d from %s failed: %w", what, lvl, src.Short(200), err)
		}
		built := nbReuse.Build()
		// the builder is Reset (and, for the type level, used again for the same value): the Go value behind the
		// first node is not the builder's any more
		if err := evid.Guard("Reset", func() error { nbReuse.Reset(); return nil }); err != nil {
			return fmt.Errorf("%s: %v", what, err)
		}
		if lvl == 0 {
			_ = evid.Guard("assembling again", func() error { return nodes.Assemble(nbReuse, src, nodes.NewProg(c.Prog), 0) })
		}
		var un interface{}
		if err := evid.Guard("bindnode.Unwrap", func() error { un = bindnode.Unwrap(built); return nil }); err != nil {
			return fmt.Errorf("%s: %v", what, err)
		}
		if un == nil {
			return fmt.Errorf("%s: Unwrap of a node built by the binding's own prototype returned nil", what)
		}
		uv := reflect.ValueOf(un)
		if uv.Kind() != reflect.Ptr || uv.Elem().Type() != gt {
			return fmt.Errorf("%s: Unwrap returned %T, want *%s", what, un, gt)
		}
		back, err := b.GoView(uv.Elem(), c.Type)
		if err != nil {
			return fmt.Errorf("%s: unwrapped Go value is malformed: %v", what, err)
		}
		if !val.Equal(back, tview, val.Ordered) {
			return fmt.Errorf("%s: the Go value unwrapped after building (level %d) holds other data: %s (got vs assembled)", what, lvl, val.Diff(back, tview))
		}
	}
	// 2b. the Go type bindnode infers from the schema (nil pointer): build, unwrap, wrap the unwrapped value again
	var protoInf schema.TypedPrototype
	if err := evid.Guard("bindnode.Prototype(nil)", func() error { protoInf = bindnode.Prototype(nil, st); return nil }); err != nil {
		return fmt.Errorf("%s: inferred Go type: %v", c.Type, err)
	}
	for lvl, src := range []val.V{tview, rview} {
		if tview.Has(func(x val.V) bool { return x.K == val.Uint }) {
			break // the inferred Go type of Int is int64: integers above it belong to user-supplied uint64 types only
		}
		built, err := nodes.Build(src, nodes.NewProg(c.Prog), typedx.TypedProto(protoInf, lvl))
		if err != nil {
			return fmt.Errorf("%s with the inferred Go type: building level %d from %s failed: %w", c.Type, lvl, src.Short(200), err)
		}
		var re schema.TypedNode
		if err := evid.Guard("Unwrap/Wrap (inferred Go type)", func() error {
			un := bindnode.Unwrap(built)
			if un == nil {
				return fmt.Errorf("Unwrap returned nil")
			}
			re = bindnode.Wrap(un, st)
			return nil
		}); err != nil {
			return fmt.Errorf("%s with the inferred Go type: %v", c.Type, err)
		}
		if err := typedx.CheckViews(re, tview, rview, fmt.Sprintf("%s with the inferred Go type: the Go value unwrapped after building (level %d), wrapped again,", c.Type, lvl)); err != nil {
			return err
		}
	}
	// 3. marshal, unmarshal into a fresh value
	codecOK := true
	var enc func(datamodel.Node, *bytes.Buffer) error
	var less func(a, b string) bool
	if c.Codec == "dag-json" {
		if tview.Has(func(x val.V) bool { return x.K == val.Uint || (x.K == val.String && !isUTF8(x.S)) }) || tview.Has(func(x val.V) bool {
			for _, e := range x.Ents {
				if !isUTF8(e.K) {
					return true
				}
			}
			return val.IsReservedShape(x)
		}) {
			codecOK = false
		}
		if known.Active("C04-integral-float") && tview.Has(val.IntegralFloat) {
			rec.Excluded("C04-integral-float")
			codecOK = false
		}
		less = val.LessBytewise
		_ = enc
	} else {
		less = val.LessLenFirst
	}
	if codecOK {
		var data []byte
		err := evid.Guard("ipld.Marshal", func() error {
			var e error
			if c.Codec == "dag-json" {
				data, e = ipld.Marshal(dagjson.Encode, gv.Addr().Interface(), st)
			} else {
				data, e = ipld.Marshal(dagcbor.Encode, gv.Addr().Interface(), st)
			}
			return e
		})
		if err != nil {
			return fmt.Errorf("%s: Marshal (%s) failed: %w", what, c.Codec, err)
		}
		// the streaming entry points are the same functions over a writer / reader: same bytes out, same value in
		var sbuf bytes.Buffer
		err = evid.Guard("ipld.MarshalStreaming", func() error {
			if c.Codec == "dag-json" {
				return ipld.MarshalStreaming(&sbuf, dagjson.Encode, gv.Addr().Interface(), st)
			}
			return ipld.MarshalStreaming(&sbuf, dagcbor.Encode, gv.Addr().Interface(), st)
		})
		if err != nil || !bytes.Equal(sbuf.Bytes(), data) {
			return fmt.Errorf("%s: MarshalStreaming (%s) wrote %s (err %v), Marshal returned %s", what, c.Codec, clip(sbuf.Bytes()), err, clip(data))
		}
		fresh := reflect.New(gt)
		streaming := len(data)%2 == 1
		err = evid.Guard("ipld.Unmarshal", func() error {
			var e error
			switch {
			case streaming && c.Codec == "dag-json":
				_, e = ipld.UnmarshalStreaming(bytes.NewReader(data), dagjson.Decode, fresh.Interface(), st)
			case streaming:
				_, e = ipld.UnmarshalStreaming(bytes.NewReader(data), dagcbor.Decode, fresh.Interface(), st)
			case c.Codec == "dag-json":
				_, e = ipld.Unmarshal(data, dagjson.Decode, fresh.Interface(), st)
			default:
				_, e = ipld.Unmarshal(data, dagcbor.Decode, fresh.Interface(), st)
			}
			return e
		})
		if err != nil {
			return fmt.Errorf("%s: Unmarshal (%s) of the marshalled bytes %s failed: %w", what, c.Codec, clip(data), err)
		}
		back, err := b.GoView(fresh.Elem(), c.Type)
		if err != nil {
			return fmt.Errorf("%s: unmarshalled Go value is malformed: %v", what, err)
		}
		want := sortViewMaps(tview, less, &c.S, c.Type, tv)
		if !val.Equal(back, want, val.Ordered) {
			return fmt.Errorf("%s: Unmarshal(Marshal(v)) (%s) holds other data: %s (got vs original)", what, c.Codec, val.Diff(back, want))
		}
	}
	// non-triviality: a pointer-maybe, a narrow or unsigned integer, or an ordered map is exercised
	ex := map[string]bool{}
	tv.Exercises(&c.S, c.Type, ex)
	gts := gt.String()
	narrow := strings.Contains(gts, "int8") || strings.Contains(gts, "int16") || strings.Contains(gts, "int32") || strings.Contains(gts, "uint") || strings.Contains(gts, "float32")
	nt := ex["null"] || ex["absent"] || ex["map:"] || narrow
	cls := []string{"codec:" + c.Codec}
	if narrow {
		cls = append(cls, "narrow-or-unsigned")
	}
	if ex["null"] || ex["absent"] {
		cls = append(cls, "pointer-maybe")
	}
	if ex["map:"] {
		cls = append(cls, "ordered-map")
	}
	if tview.Has(func(x val.V) bool { return x.K == val.Uint }) {
		cls = append(cls, "uint64-above-int64")
	}
	bb, _ := jsonMarshal(c)
	rec.Case(val.HashBytes(bb), nt, cls...)
	if nt && rec.WantSample() && len(bb) < 3000 {
		rec.Sample(map[string]any{"go_type": gts, "schema": c.S, "type": c.Type, "view": tview.String()})
	}
	return nil
}

func isUTF8(s string) bool { return strings.ToValidUTF8(s, "\x00\x00") == s }

var c19Part = evid.Part[C19Case]{
	Prop: "C19", Name: "bind", Quick: 2500, Thorough: 1500000,
	Rule: "schema × typed value × user-supplied Go type assembled with reflect in a drawn variation (int/int8..int64/uint8..uint64/uint per Int position, float32/float64, cid.Cid / cidlink.Link / datamodel.Link, *T for optional or nullable, **T for both, nil-able slices as optionals, struct{Keys;Values} ordered maps, union structs of pointers, string- or int-backed enums, datamodel.Node for Any) × codec; Wrap must read as the value (type and representation level), building through the prototype and Unwrap must give a Go value holding the same data (also with the Go type bindnode infers from the schema, re-wrapped and compared with the reference views), Unmarshal(Marshal(v)) into a fresh value must hold the same data (ordered-map order modulo the codec's canonical order; MarshalStreaming must write the same bytes, and half of the decodes go through UnmarshalStreaming); non-trivial = a pointer-maybe, a narrow/unsigned/float32 position or an ordered map is exercised; distinct by the whole case",
	Gen: func(t *rapid.T) C19Case {
		s, typ, tv := genSchemaValue(t, tschema.GenOpts{MaxTypes: 5})
		return C19Case{S: s, Type: typ, TV: tv, Ch: gobind.Choices{C: rapid.SliceOfN(rapid.Byte(), 0, 16).Draw(t, "choices")}, Prog: rapid.SliceOfN(rapid.Byte(), 0, 8).Draw(t, "prog"),
			Codec: rapid.SampledFrom([]string{"dag-cbor", "dag-cbor", "dag-json"}).Draw(t, "codec")}
	},
	Check: c19Check,
}.Reg()

func TestC19_Bind(t *testing.T) { c19Part.Run(t) }

// ---------------------------------------------------------------------------------------
// integers outside the range of a narrow Go integer must be refused, not wrapped around

type C19OvCase struct {
	GoKind int   `json:"go_kind"`
	Value  int64 `json:"value"`
	Big    bool  `json:"big"` // use a uint64 value above MaxInt64
	Level  int   `json:"level"`
}

var c19Ov = evid.Part[C19OvCase]{
	Prop: "C19", Name: "intrange", Quick: 3000, Thorough: 800000,
	Rule: "struct{fa Int} bound to a Go struct whose field is int8/int16/int32/int/int64/uint8/uint16/uint32/uint64/uint; an integer (boundary-biased, incl. uint64 above int64) is assigned through the type- or representation-level builder: inside the Go type's range it must be stored exactly, outside it the assignment must return an error (never wrap around); non-trivial = the value lies outside the range or within 2 of a bound; distinct by (kind, value, level)",
	Gen: func(t *rapid.T) C19OvCase {
		c := C19OvCase{GoKind: rapid.IntRange(0, 9).Draw(t, "kind"), Level: rapid.IntRange(0, 1).Draw(t, "level")}
		c.Value = val.DrawInt(t, "value", false)
		c.Big = rapid.IntRange(0, 5).Draw(t, "big") == 0
		return c
	},
	Check: func(c C19OvCase, rec *evid.Rec) error {
		s := tschema.Schema{Types: []tschema.TypeSpec{{Name: "T0", Kind: "struct", Repr: "map", Fields: []tschema.FieldSpec{{Name: "fa", Type: "Int"}}}}}
		ts, err := s.Build()
		if err != nil {
			return err
		}
		kinds := []reflect.Type{reflect.TypeOf(int64(0)), reflect.TypeOf(int(0)), reflect.TypeOf(int8(0)), reflect.TypeOf(int16(0)), reflect.TypeOf(int32(0)),
			reflect.TypeOf(uint8(0)), reflect.TypeOf(uint16(0)), reflect.TypeOf(uint32(0)), reflect.TypeOf(uint64(0)), reflect.TypeOf(uint(0))}
		ft := kinds[c.GoKind%len(kinds)]
		gt := reflect.StructOf([]reflect.StructField{{Name: "Fa", Type: ft}})
		var proto schema.TypedPrototype
		if err := evid.Guard("bindnode.Prototype", func() error {
			proto = bindnode.Prototype(reflect.New(gt).Interface(), ts.TypeByName("T0"))
			return nil
		}); err != nil {
			return err
		}
		v := val.MkInt(c.Value)
		if c.Big {
			v = val.MkUint(uint64(c.Value) | 1<<63)
		}
		fits := false
		switch ft.Kind() {
		case reflect.Int8:
			fits = v.K == val.Int && v.I >= math.MinInt8 && v.I <= math.MaxInt8
		case reflect.Int16:
			fits = v.K == val.Int && v.I >= math.MinInt16 && v.I <= math.MaxInt16
		case reflect.Int32:
			fits = v.K == val.Int && v.I >= math.MinInt32 && v.I <= math.MaxInt32
		case reflect.Int, reflect.Int64:
			fits = v.K == val.Int
		case reflect.Uint8:
			fits = v.K == val.Int && v.I >= 0 && v.I <= math.MaxUint8
		case reflect.Uint16:
			fits = v.K == val.Int && v.I >= 0 && v.I <= math.MaxUint16
		case reflect.Uint32:
			fits = v.K == val.Int && v.I >= 0 && v.I <= math.MaxUint32
		default:
			fits = v.K == val.Uint || v.I >= 0
		}
		src := val.MkMap(val.Ent{K: "fa", V: v})
		n, berr := nodes.Build(src, nil, typedx.TypedProto(proto, c.Level))
		what := fmt.Sprintf("assigning %s to a Go %s field (level %d)", v, ft, c.Level)
		if berr != nil && strings.HasPrefix(berr.Error(), "PANIC") {
			return fmt.Errorf("%s: %v", what, berr)
		}
		if fits {
			if berr != nil {
				return fmt.Errorf("%s was refused although the value fits: %v", what, berr)
			}
			got := reflect.ValueOf(bindnode.Unwrap(n)).Elem().Field(0)
			var gvv val.V
			if got.CanInt() {
				gvv = val.MkInt(got.Int())
			} else {
				gvv = val.MkUint(got.Uint())
			}
			if !val.Equal(gvv, v, val.Ordered) {
				return fmt.Errorf("%s stored %s", what, gvv)
			}
		} else if berr == nil {
			got := reflect.ValueOf(bindnode.Unwrap(n)).Elem().Field(0)
			return fmt.Errorf("%s succeeded although the value is outside the type's range: the field now holds %v (silent wrap-around)", what, got.Interface())
		}
		rec.Case(val.HashBytes([]byte(what)), !fits || c.Big, fmt.Sprintf("fits:%v", fits), "go:"+ft.String())
		if !fits && rec.WantSample() {
			rec.Sample(c)
		}
		return nil
	},
}.Reg()

func TestC19_IntRange(t *testing.T) { c19Ov.Run(t) }

// ---------------------------------------------------------------------------------------
// histories of binding calls on named Go types, with explicit and inferred schemas

type C19Inner struct {
	X int64
	S string
}

type C19Outer struct {
	A  bool
	N  int64
	F  float64
	S  string
	B  []byte
	L  []string
	I  C19Inner
	LI []C19Inner
	C  cid.Cid
	K  cidlink.Link
}

type C19Other struct {
	L  []string
	LL [][]string
	I  C19Inner
}

type C19HistOp struct {
	Kind string `json:"kind"` // wrap-infer | proto-infer | wrap-explicit | marshal-infer | unmarshal-infer
	Type int    `json:"type"` // 0 outer, 1 inner, 2 other
	Seed int    `json:"seed"`
}

type C19HistCase struct {
	Ops []C19HistOp `json:"ops"`
}

func c19Values(seed int) (C19Outer, C19Inner, C19Other) {
	c1, _ := cid.Cast([]byte(val.MakeCidV1(0x71, 0x12, bytes.Repeat([]byte{byte(seed)}, 32))))
	in := C19Inner{X: int64(seed*7 - 3), S: fmt.Sprint("s", seed)}
	out := C19Outer{A: seed%2 == 0, N: int64(seed), F: float64(seed) + 0.5, S: "x", B: []byte{byte(seed)}, L: []string{"a", "b"}[:seed%3%3], I: in, LI: []C19Inner{in, in}[:seed%3],
		C: c1, K: cidlink.Link{Cid: c1}}
	oth := C19Other{L: []string{"q"}, LL: [][]string{{"a"}, {}}, I: in}
	return out, in, oth
}

func c19OuterView(o C19Outer) val.V {
	inner := func(i C19Inner) val.V {
		return val.MkMap(val.Ent{K: "X", V: val.MkInt(i.X)}, val.Ent{K: "S", V: val.MkString(i.S)})
	}
	strs := func(l []string) val.V {
		out := val.V{K: val.List, Items: []val.V{}}
		for _, s := range l {
			out.Items = append(out.Items, val.MkString(s))
		}
		return out
	}
	li := val.V{K: val.List, Items: []val.V{}}
	for _, i := range o.LI {
		li.Items = append(li.Items, inner(i))
	}
	return val.MkMap(val.Ent{K: "A", V: val.MkBool(o.A)}, val.Ent{K: "N", V: val.MkInt(o.N)}, val.Ent{K: "F", V: val.MkFloat(o.F)}, val.Ent{K: "S", V: val.MkString(o.S)},
		val.Ent{K: "B", V: val.MkBytes(o.B)}, val.Ent{K: "L", V: strs(o.L)}, val.Ent{K: "I", V: inner(o.I)}, val.Ent{K: "LI", V: li},
		val.Ent{K: "C", V: val.MkLink(string(o.C.Bytes()))}, val.Ent{K: "K", V: val.MkLink(string(o.K.Cid.Bytes()))})
}

func c19HistCheck(c C19HistCase, rec *evid.Rec) error {
	explicit, err := ipld.LoadSchemaBytes([]byte(`
		type C19Inner struct { X Int  S String }
		type C19Outer struct { A Bool N Int F Float S String B Bytes L [String] I C19Inner LI [C19Inner] C Link K Link }
		type C19Other struct { L [String] LL [[String]] I C19Inner }
	`))
	if err != nil {
		return fmt.Errorf("HARNESS: %v", err)
	}
	sameType := map[int]int{}
	for i, op := range c.Ops {
		out, in, oth := c19Values(op.Seed)
		where := fmt.Sprintf("call %d (%s on type %d)", i, op.Kind, op.Type)
		var ptr interface{}
		var want val.V
		var name string
		switch op.Type % 3 {
		case 0:
			ptr, want, name = &out, c19OuterView(out), "C19Outer"
		case 1:
			ptr, name = &in, "C19Inner"
			want = val.MkMap(val.Ent{K: "X", V: val.MkInt(in.X)}, val.Ent{K: "S", V: val.MkString(in.S)})
		default:
			ptr, name = &oth, "C19Other"
			want = val.MkMap(val.Ent{K: "L", V: val.MkList(val.MkString("q"))}, val.Ent{K: "LL", V: val.MkList(val.MkList(val.MkString("a")), val.MkList())},
				val.Ent{K: "I", V: val.MkMap(val.Ent{K: "X", V: val.MkInt(in.X)}, val.Ent{K: "S", V: val.MkString(in.S)})})
		}
		sameType[op.Type%3]++
		err, hung := withWatchdog(where, 20*time.Second, func() error {
			switch op.Kind {
			case "unnamed-infer":
				// unnamed Go types (and same-named types of different scopes) bound with a nil schema: every type
				// gets its own inferred schema, whatever was bound before
				switch op.Seed % 4 {
				case 0:
					vals := []string{"a", fmt.Sprint("s", op.Seed)}
					got, err := nodes.Read(bindnode.Wrap(&vals, nil))
					if err != nil || !val.Equal(got, val.MkList(val.MkString(vals[0]), val.MkString(vals[1])), val.Ordered) {
						return fmt.Errorf("Wrap(*[]string, nil) reads %s (err %v)", got.Short(100), err)
					}
				case 1:
					vals := []int64{int64(op.Seed), 7}
					got, err := nodes.Read(bindnode.Wrap(&vals, nil))
					if err != nil || !val.Equal(got, val.MkList(val.MkInt(vals[0]), val.MkInt(7)), val.Ordered) {
						return fmt.Errorf("Wrap(*[]int64, nil) reads %s (err %v)", got.Short(100), err)
					}
				case 2:
					type Scoped struct{ A string }
					v := Scoped{A: "x"}
					got, err := nodes.Read(bindnode.Wrap(&v, nil))
					if err != nil || !val.Equal(got, val.MkMap(val.Ent{K: "A", V: val.MkString("x")}), val.Ordered) {
						return fmt.Errorf("Wrap of a function-scoped struct {A string} reads %s (err %v)", got.Short(100), err)
					}
				default:
					type Scoped struct{ B int64 }
					v := Scoped{B: 5}
					data, err := ipld.Marshal(dagjson.Encode, &v, nil)
					if err != nil || string(data) != `{"B":5}` {
						return fmt.Errorf("Marshal of another function-scoped struct also named Scoped {B int64} gives %q (err %v)", data, err)
					}
				}
				return nil
			case "refused-infer":
				// a Go type inference documents it cannot handle: it refuses by panicking; whatever it does,
				// the calls that follow must be unaffected (and must not hang)
				func() {
					defer func() { _ = recover() }()
					switch op.Seed % 3 {
					case 0:
						_ = bindnode.Wrap(&struct{ C complex128 }{}, nil)
					case 1:
						_ = bindnode.Prototype((*struct {
							S string
							F func()
						})(nil), nil)
					default:
						_, _ = ipld.Marshal(dagcbor.Encode, &struct{ Ch chan int }{}, nil)
					}
				}()
				return nil
			case "wrap-infer", "wrap-explicit":
				var st schema.Type
				if op.Kind == "wrap-explicit" {
					st = explicit.TypeByName(name)
				}
				n := bindnode.Wrap(ptr, st)
				got, err := nodes.FullTyped.Read(n)
				if err != nil {
					return fmt.Errorf("wrapped node inconsistent: %w", err)
				}
				if !val.Equal(got, want, val.Ordered) {
					return fmt.Errorf("wrapped node differs from the Go value: %s", val.Diff(got, want))
				}
			case "proto-infer":
				proto := bindnode.Prototype(reflect.New(reflect.TypeOf(ptr).Elem()).Interface(), nil)
				n, err := nodes.Build(want, nil, proto)
				if err != nil {
					return fmt.Errorf("building through the inferred prototype failed: %w", err)
				}
				got, err := nodes.FullTyped.Read(n)
				if err != nil || !val.Equal(got, want, val.Ordered) {
					return fmt.Errorf("node built through the inferred prototype differs: %s (err %v)", val.Diff(got, want), err)
				}
			case "marshal-infer", "unmarshal-infer":
				data, err := ipld.Marshal(dagcbor.Encode, ptr, nil)
				if err != nil {
					return fmt.Errorf("Marshal with an inferred schema failed: %w", err)
				}
				if op.Kind == "unmarshal-infer" {
					fresh := reflect.New(reflect.TypeOf(ptr).Elem())
					n, err := ipld.Unmarshal(data, dagcbor.Decode, fresh.Interface(), nil)
					if err != nil {
						return fmt.Errorf("Unmarshal with an inferred schema failed: %w", err)
					}
					got, err := nodes.FullTyped.Read(n)
					if err != nil || !val.Equal(got, want, val.Ordered) {
						return fmt.Errorf("unmarshalled node differs: %s (err %v)", val.Diff(got, want), err)
					}
					again, err := nodes.FullTyped.Read(bindnode.Wrap(fresh.Interface(), explicit.TypeByName(name)))
					if err != nil || !val.Equal(again, want, val.Ordered) {
						return fmt.Errorf("the Go value filled by Unmarshal differs: %s (err %v)", val.Diff(again, want), err)
					}
				}
			}
			return nil
		})
		if hung {
			return fmt.Errorf("%s: %v (a binding call after an earlier one in this process)", where, err)
		}
		if err != nil {
			return fmt.Errorf("%s: every binding call in a history must succeed with equivalent results: %w", where, err)
		}
	}
	nt := false
	for _, k := range sameType {
		if k >= 2 {
			nt = true
		}
	}
	b, _ := jsonMarshal(c)
	rec.Case(val.HashBytes(b), nt)
	if nt && rec.WantSample() {
		rec.Sample(c)
	}
	return nil
}

var c19Hist = evid.Part[C19HistCase]{
	Prop: "C19", Name: "histories", Quick: 400, Thorough: 100000,
	Rule: "history of ≤12 binding calls (Wrap with inferred schema, Prototype with inferred schema, Wrap with an explicit schema, ipld.Marshal and ipld.Unmarshal with a nil schema, calls with Go types that inference refuses, and with unnamed / same-named function-scoped types) over three named Go struct types that share nested named types and slice types, in one process; every call must succeed and read as the Go value; non-trivial = ≥2 calls on the same named type; distinct by history",
	Gen: func(t *rapid.T) C19HistCase {
		n := rapid.IntRange(1, 12).Draw(t, "n")
		var c C19HistCase
		for i := 0; i < n; i++ {
			c.Ops = append(c.Ops, C19HistOp{Kind: rapid.SampledFrom([]string{"wrap-infer", "proto-infer", "wrap-explicit", "marshal-infer", "unmarshal-infer", "refused-infer", "unnamed-infer"}).Draw(t, "kind"),
				Type: rapid.IntRange(0, 2).Draw(t, "type"), Seed: rapid.IntRange(0, 20).Draw(t, "seed")})
		}
		return c
	},
	Check: c19HistCheck,
}.Reg()

func TestC19_Histories(t *testing.T) { c19Hist.Run(t) }

var _ = basicnode.Prototype
