package checks

import (
	"bytes"
	"context"
	"crypto/sha256"
	"encoding/binary"
	"errors"
	"fmt"
	"io"
	"os"
	"os/exec"
	"os/signal"
	"path/filepath"
	"runtime"
	"strings"
	"sync"
	"syscall"
	"testing"
	"time"

	"github.com/ipld/go-ipld-prime/storage/fsstore"
	"pgregory.net/rapid"

	"verif/evid"
	"verif/val"
)

// C18: filesystem store writes are atomic: a key is absent or complete, never partial.

// blob builds self-describing content: 8-byte length, sha256 of the payload, payload. A reader
// can tell a complete blob from a partial or mixed one without knowing what was written.
func blob(seed byte, n int) []byte {
	payload := make([]byte, n)
	for i := range payload {
		payload[i] = seed + byte(i*13)
	}
	h := sha256.Sum256(payload)
	out := make([]byte, 8, 8+32+n)
	binary.BigEndian.PutUint64(out, uint64(n))
	out = append(out, h[:]...)
	return append(out, payload...)
}

func blobComplete(b []byte) bool {
	if len(b) < 40 {
		return false
	}
	n := binary.BigEndian.Uint64(b[:8])
	if uint64(len(b)-40) != n {
		return false
	}
	h := sha256.Sum256(b[40:])
	return bytes.Equal(h[:], b[8:40])
}

type crashSentinel struct{ point string }

type C18Case struct {
	Scenario string `json:"scenario"`
	Sharding string `json:"sharding"`
	Escaping string `json:"escaping"`
	Seed     byte   `json:"seed"`
	Size     int    `json:"size"`
	Chunks   int    `json:"chunks"`
	KeyA     string `json:"key_a"` // val.Txt
	KeyB     string `json:"key_b"` // val.Txt: shares the shard directory with KeyA in "existing-shard"
}

var c18Scenarios = []string{"put-fresh-shard", "put-existing-shard", "reput", "stream", "stream-abandon", "abort-empty-key", "put-write-error", "ctx-cancel"}

func openFS(base, esc, shard string) (*fsstore.Store, error) {
	fs := &fsstore.Store{}
	if esc == "" && shard == "" {
		return fs, fs.InitDefaults(base)
	}
	e := fsEscaping(esc)
	if e == nil {
		e = fsEscaping("hex")
	}
	return fs, fs.Init(base, e, fsSharding(shard))
}

// c18Run executes the scenario once with a fault at the k-th hook call (k<0: no fault) and
// returns the hook points seen, the committed keys and the in-flight key.
func c18Run(c C18Case, base string, k int, fault string) (points []string, committed map[string][]byte, inflight map[string][]byte, opErr error, crashed bool) {
	ctx, cancelOp := context.WithCancel(context.Background())
	defer cancelOp()
	committed = map[string][]byte{}
	inflight = map[string][]byte{}
	keyA, _ := val.UnTxt(c.KeyA)
	keyB, _ := val.UnTxt(c.KeyB)
	contentA := blob(c.Seed, c.Size)
	contentB := blob(c.Seed+1, c.Size/2+1)
	fs, err := openFS(base, c.Escaping, c.Sharding)
	if err != nil {
		return nil, committed, inflight, err, false
	}
	// preparation (never faulted)
	switch c.Scenario {
	case "put-existing-shard":
		if err := fs.Put(ctx, keyB, contentB); err == nil {
			committed[keyB] = contentB
		}
	case "reput":
		if err := fs.Put(ctx, keyA, contentA); err == nil {
			committed[keyA] = contentA
		}
	}
	calls := 0
	fsstore.SetVerifHook(func(point string, paths ...string) error {
		if strings.HasPrefix(point, "has.") || strings.HasPrefix(point, "getstream.") {
			return nil
		}
		points = append(points, point)
		calls++
		if k >= 0 && calls-1 == k {
			if fault == "crash" {
				panic(crashSentinel{point})
			}
			if fault == "cancel" {
				// the caller's context is cancelled at this very point of the operation; the operation goes on
				// however it likes, but what it leaves behind is absent or complete
				cancelOp()
				return nil
			}
			if fault == "collide" {
				// the freshly chosen staging name is already taken by a leftover file with other, longer content
				// (another writer's, or debris of a crash): the store must pick another name, never adopt it
				if len(paths) > 0 {
					_ = os.WriteFile(paths[0], bytes.Repeat([]byte{0xEE}, 2*c.Size+64), 0o666)
				}
				return nil
			}
			if fault == "efbig" {
				// make the real write(2) fail after part of the data: the file-size limit of this process is
				// lowered to half of the content until the operation returns
				c18LimitFileSize(uint64(c.Size / 2))
				return nil
			}
			return errInjected
		}
		return nil
	})
	defer fsstore.SetVerifHook(nil)
	defer c18RestoreFileSize()
	defer func() {
		if r := recover(); r != nil {
			if _, ok := r.(crashSentinel); ok {
				crashed = true
				return
			}
			panic(r)
		}
	}()
	inflight[keyA] = contentA
	switch c.Scenario {
	case "put-fresh-shard", "put-existing-shard", "reput", "put-write-error":
		opErr = fs.Put(ctx, keyA, contentA)
		if opErr == nil {
			committed[keyA] = contentA
		}
	case "stream", "stream-abandon", "abort-empty-key":
		w, commit, err := fs.PutStream(ctx)
		if err != nil {
			return points, committed, inflight, err, false
		}
		n := c.Chunks
		if n < 1 {
			n = 1
		}
		rest := contentA
		for i := 0; i < n && len(rest) > 0; i++ {
			sz := len(rest) / (n - i)
			if sz < 1 {
				sz = 1
			}
			if c.Scenario == "stream-abandon" && i == n/2 {
				// the writer dies / gives up here: part of the data is in the staging file
				return points, committed, inflight, errors.New("abandoned"), false
			}
			if _, err := w.Write(rest[:sz]); err != nil {
				_ = commit("")
				return points, committed, inflight, err, false
			}
			rest = rest[sz:]
		}
		if len(rest) > 0 {
			_, _ = w.Write(rest)
		}
		if c.Scenario == "abort-empty-key" {
			opErr = commit("")
			delete(inflight, keyA)
			return points, committed, inflight, opErr, false
		}
		opErr = commit(keyA)
		if opErr == nil {
			committed[keyA] = contentA
		}
		// a straggling write after the commit (a buffered writer flushing late): it may fail, it must not reach the
		// committed block
		_, _ = w.Write([]byte("straggler-after-commit"))
	case "ctx-cancel":
		cctx, cancel := context.WithCancel(ctx)
		cancel()
		if _, _, err := fs.PutStream(cctx); err == nil {
			opErr = errors.New("PutStream accepted a cancelled context")
			return points, committed, inflight, opErr, false
		}
		w, commit, err := fs.PutStream(ctx)
		if err != nil {
			return points, committed, inflight, err, false
		}
		_, _ = w.Write(contentA[:len(contentA)/2])
		// cancelled midway: the caller aborts
		opErr = commit("")
		delete(inflight, keyA)
	}
	return points, committed, inflight, opErr, false
}

// c18Verify opens a new store on the directory and checks "absent or complete".
func c18Verify(c C18Case, base string, committed, inflight map[string][]byte, what string) error {
	ctx := context.Background()
	fs, err := openFS(base, c.Escaping, c.Sharding)
	if err != nil {
		return fmt.Errorf("%s: the directory cannot be opened by a new store: %v", what, err)
	}
	for k, want := range committed {
		got, err := fs.Get(ctx, k)
		if err != nil {
			return fmt.Errorf("%s: committed key %s is gone: %v", what, val.Txt(k), err)
		}
		if !bytes.Equal(got, want) {
			return fmt.Errorf("%s: committed key %s reads %d bytes, want the %d committed", what, val.Txt(k), len(got), len(want))
		}
	}
	// a reader whose context ends while it is reading gets an error or the rest of the block, never a clean end
	// of stream in the middle of it
	for k, want := range committed {
		cctx, cancel := context.WithCancel(ctx)
		r, err := fs.GetStream(cctx, k)
		if err != nil {
			cancel()
			return fmt.Errorf("%s: GetStream of committed key %s: %v", what, val.Txt(k), err)
		}
		head := make([]byte, len(want)/2)
		_, herr := io.ReadFull(r, head)
		cancel()
		tail, terr := io.ReadAll(r)
		r.Close()
		if herr == nil && terr == nil && !bytes.Equal(append(head, tail...), want) {
			return fmt.Errorf("%s: a reader of committed key %s whose context was cancelled after %d bytes reached a clean end of stream after %d of %d bytes", what, val.Txt(k), len(head), len(head)+len(tail), len(want))
		}
	}
	for k, want := range inflight {
		if _, ok := committed[k]; ok {
			continue
		}
		has, herr := fs.Has(ctx, k)
		got, gerr := fs.Get(ctx, k)
		if herr != nil {
			return fmt.Errorf("%s: Has of the in-flight key fails: %v", what, herr)
		}
		if has != (gerr == nil) {
			return fmt.Errorf("%s: in-flight key %s: Has=%v but Get err=%v", what, val.Txt(k), has, gerr)
		}
		if gerr == nil && !bytes.Equal(got, want) {
			return fmt.Errorf("%s: in-flight key %s is visible with partial or wrong content (%d of %d bytes)", what, val.Txt(k), len(got), len(want))
		}
	}
	// nothing outside the staging area may hold a partial blob
	err = filepath.Walk(base, func(p string, fi os.FileInfo, err error) error {
		if err != nil {
			return err
		}
		if fi.IsDir() {
			if fi.Name() == ".temp" {
				return filepath.SkipDir
			}
			return nil
		}
		b, rerr := os.ReadFile(p)
		if rerr != nil {
			return rerr
		}
		if !blobComplete(b) {
			return fmt.Errorf("%s: file %s outside the staging area holds a partial block (%d bytes)", what, strings.TrimPrefix(p, base), len(b))
		}
		return nil
	})
	if err != nil {
		return err
	}
	// the store stays usable
	nk := "fresh-key-after-fault"
	nc := blob(99, 33)
	if err := fs.Put(ctx, nk, nc); err != nil {
		return fmt.Errorf("%s: a fresh put fails afterwards: %v", what, err)
	}
	if got, err := fs.Get(ctx, nk); err != nil || !bytes.Equal(got, nc) {
		return fmt.Errorf("%s: a fresh put/get afterwards returns %d bytes, err %v", what, len(got), err)
	}
	for k, want := range inflight {
		if err := fs.Put(ctx, k, want); err != nil {
			return fmt.Errorf("%s: re-putting the in-flight key fails afterwards: %v", what, err)
		}
		if got, err := fs.Get(ctx, k); err != nil || !bytes.Equal(got, want) {
			return fmt.Errorf("%s: in-flight key after re-put reads %d bytes, err %v", what, len(got), err)
		}
	}
	return nil
}

var (
	c18OldLimit   syscall.Rlimit
	c18LimitSet   bool
	c18IgnoreOnce sync.Once
)

// c18LimitFileSize lowers the soft RLIMIT_FSIZE of the process (SIGXFSZ ignored, so that write(2) returns a
// short count and then EFBIG); c18RestoreFileSize puts it back.
func c18LimitFileSize(n uint64) {
	c18IgnoreOnce.Do(func() { signal.Ignore(syscall.SIGXFSZ) })
	if err := syscall.Getrlimit(syscall.RLIMIT_FSIZE, &c18OldLimit); err != nil {
		return
	}
	if err := syscall.Setrlimit(syscall.RLIMIT_FSIZE, &syscall.Rlimit{Cur: n, Max: c18OldLimit.Max}); err == nil {
		c18LimitSet = true
	}
}

func c18RestoreFileSize() {
	if c18LimitSet {
		_ = syscall.Setrlimit(syscall.RLIMIT_FSIZE, &c18OldLimit)
		c18LimitSet = false
	}
}

func c18Check(c C18Case, rec *evid.Rec) error {
	mk := func() (string, func()) {
		dir, err := os.MkdirTemp("", "c18-")
		if err != nil {
			return "", func() {}
		}
		return dir, func() { os.RemoveAll(dir) }
	}
	base, cleanup := mk()
	if base == "" {
		return nil
	}
	points, committed, inflight, _, _ := c18Run(c, base, -1, "")
	err := c18Verify(c, base, committed, inflight, c.Scenario+" without fault")
	cleanup()
	if err != nil {
		return err
	}
	for k := range points {
		for _, fault := range []string{"crash", "error", "cancel", "efbig", "collide"} {
			if fault == "efbig" && (points[k] != "put.write" || c.Size < 2) {
				continue
			}
			if fault == "collide" && points[k] != "putstream.create" {
				continue
			}
			base, cleanup := mk()
			if base == "" {
				return nil
			}
			_, committed, inflight, opErr, crashed := c18Run(c, base, k, fault)
			what := fmt.Sprintf("%s (%s/%s), %s at hook point #%d %q", c.Scenario, c.Escaping, c.Sharding, fault, k, points[k])
			var verr error
			if fault == "error" && !crashed && opErr == nil && c.Scenario != "stream-abandon" {
				// an injected failure of a filesystem step must surface (or be harmless: the
				// verification below decides whether the key is there)
				rec.Class("error-swallowed:" + points[k])
			}
			verr = c18Verify(c, base, committed, inflight, what)
			cleanup()
			if verr != nil {
				return verr
			}
			rec.CaseCounted(true, "point:"+points[k], "fault:"+fault, "scenario:"+c.Scenario)
		}
	}
	if rec.WantSample() {
		rec.Sample(map[string]any{"case": c, "hook_points_in_order": points})
	}
	return nil
}

func drawC18(t *rapid.T, scenario string) C18Case {
	c := C18Case{Scenario: scenario, Seed: rapid.Byte().Draw(t, "seed"), Size: rapid.SampledFrom([]int{0, 1, 17, 300, 5000, 17, 300, 1, 5000, 300, 17, 1<<20 - 40, 2<<20 - 40}).Draw(t, "size"), Chunks: rapid.IntRange(1, 5).Draw(t, "chunks")}
	if rapid.Bool().Draw(t, "custom") {
		c.Escaping = rapid.SampledFrom([]string{"hex", "base64url"}).Draw(t, "escaping")
		c.Sharding = rapid.SampledFrom([]string{"r12", "r122", "r133", "none", "deep"}).Draw(t, "sharding")
	}
	tail := rapid.SliceOfN(rapid.Byte(), 4, 8).Draw(t, "tail")
	c.KeyA = val.Txt("A" + string(rapid.SliceOfN(rapid.Byte(), 0, 6).Draw(t, "ka")) + string(tail))
	c.KeyB = val.Txt("B" + string(rapid.SliceOfN(rapid.Byte(), 0, 6).Draw(t, "kb")) + string(tail))
	return c
}

var c18Part = evid.Part[C18Case]{
	Prop: "C18", Name: "faultpoints", Quick: 160, Thorough: 16000,
	Rule: "scenario (put into a fresh shard dir / an existing one, re-put, streamed put in k chunks, abandoned stream, abort with the empty key, write error, cancelled context) × drawn keys, sizes, escaping and sharding × EVERY hook point of the operation (create staging file, write, close, rename, mkdir of missing parents, retry, cleanup) × {crash: the hook panics and all in-memory state is abandoned; error: the step fails; cancel: the context given to the operation is cancelled at that point; at the write of Put also efbig: the real write(2) fails after half of the data (file-size limit); at the creation of the staging file also collide: the chosen name already holds a longer leftover file}; afterwards a NEW store must find every committed key complete, the in-flight key absent or complete, no partial file outside the staging area, and fresh puts/gets working; every (scenario, point, fault) execution is counted (distinct by construction within a case)",
	Gen: func(t *rapid.T) C18Case {
		return drawC18(t, rapid.SampledFrom(c18Scenarios).Draw(t, "scenario"))
	},
	Check: c18Check,
}.Reg()

func TestC18_FaultPoints(t *testing.T) { c18Part.Run(t) }

// ---------------------------------------------------------------------------------------
// concurrent writers and readers (run with the race detector by the driver)

type C18ConcCase struct {
	Writers  int    `json:"writers"`
	Readers  int    `json:"readers"`
	Keys     int    `json:"keys"`
	Rounds   int    `json:"rounds"`
	Yield    []byte `json:"yield"` // per hook call: 0 nothing, 1 Gosched, 2 short sleep
	Sharding string `json:"sharding"`
	Versions bool   `json:"versions,omitempty"`
}

func c18ConcCheck(c C18ConcCase, rec *evid.Rec) error {
	dir, err := os.MkdirTemp("", "c18c-")
	if err != nil {
		return nil
	}
	defer os.RemoveAll(dir)
	fs, err := openFS(dir, "hex", c.Sharding)
	if err != nil {
		return err
	}
	ctx := context.Background()
	contents := make([][]byte, c.Keys)
	keys := make([]string, c.Keys)
	for i := range keys {
		keys[i] = fmt.Sprintf("key-%d-shared-tail", i)
		contents[i] = blob(byte(i), 2000+i*517)
	}
	// Versions: writers alternate between two complete values of different length under each key (not
	// content-addressed use, but nothing in the store forbids it): a reader sees absent, or one of them, whole
	alt := make([][]byte, c.Keys)
	for i := range alt {
		alt[i] = blob(byte(100+i), 300+i*31)
	}
	isVersion := func(ki int, b []byte) bool {
		return bytes.Equal(b, contents[ki]) || (c.Versions && bytes.Equal(b, alt[ki]))
	}
	var hookCalls int64
	var mu sync.Mutex
	fsstore.SetVerifHook(func(point string, paths ...string) error {
		mu.Lock()
		i := hookCalls
		hookCalls++
		mu.Unlock()
		if len(c.Yield) > 0 {
			switch c.Yield[int(i)%len(c.Yield)] % 3 {
			case 1:
				runtime.Gosched()
			case 2:
				time.Sleep(50 * time.Microsecond)
			}
		}
		return nil
	})
	defer fsstore.SetVerifHook(nil)
	var wg sync.WaitGroup
	errs := make(chan error, c.Writers+c.Readers)
	putOK := make([]int64, c.Keys)
	var putMu sync.Mutex
	for w := 0; w < c.Writers; w++ {
		wg.Add(1)
		go func(w int) {
			defer wg.Done()
			// every other writer is "another process": it opens the directory itself, while the others are starting
			// or already at work (opening a store must not disturb, or be disturbed by, its other users)
			fs := fs
			if w%2 == 1 {
				own, oerr := openFS(dir, "hex", c.Sharding)
				if oerr != nil {
					errs <- fmt.Errorf("writer %d: opening the directory while other stores use it failed: %v", w, oerr)
					return
				}
				fs = own
			}
			for r := 0; r < c.Rounds; r++ {
				ki := (w + r) % c.Keys
				var err error
				content := contents[ki]
				if c.Versions && (w+r/2)%2 == 1 {
					content = alt[ki]
				}
				if (w+r)%2 == 0 {
					err = fs.Put(ctx, keys[ki], content)
				} else {
					wr, commit, oerr := fs.PutStream(ctx)
					if oerr != nil {
						err = oerr
					} else {
						half := len(content) / 2
						_, _ = wr.Write(content[:half])
						runtime.Gosched()
						_, _ = wr.Write(content[half:])
						err = commit(keys[ki])
					}
				}
				if err == nil {
					putMu.Lock()
					putOK[ki]++
					putMu.Unlock()
				}
			}
		}(w)
	}
	for r := 0; r < c.Readers; r++ {
		wg.Add(1)
		go func(r int) {
			defer wg.Done()
			for i := 0; i < c.Rounds*3; i++ {
				ki := (r + i) % c.Keys
				var b []byte
				if (r+i)%2 == 0 {
					rd, err := fs.GetStream(ctx, keys[ki])
					if err != nil {
						continue // absent
					}
					var rerr error
					b, rerr = io.ReadAll(rd)
					rd.Close()
					if rerr != nil {
						errs <- fmt.Errorf("reader: read error on key %d: %v", ki, rerr)
						return
					}
				} else {
					var err error
					b, err = fs.Get(ctx, keys[ki])
					if err != nil {
						if os.IsNotExist(err) || strings.Contains(err.Error(), "no such file") || strings.Contains(err.Error(), "not found") {
							continue // absent
						}
						errs <- fmt.Errorf("reader: Get of key %d failed while writers were running: %v", ki, err)
						return
					}
				}
				if !isVersion(ki, b) {
					errs <- fmt.Errorf("reader observed key %d with %d bytes (complete=%v) while writers were running; want absent or the full %d bytes", ki, len(b), blobComplete(b), len(contents[ki]))
					return
				}
			}
		}(r)
	}
	wg.Wait()
	close(errs)
	for e := range errs {
		return e
	}
	for ki := range keys {
		if putOK[ki] > 0 {
			got, err := fs.Get(ctx, keys[ki])
			if err != nil || !isVersion(ki, got) {
				return fmt.Errorf("after concurrent writers: key %d had %d successful puts but reads %d bytes, err %v", ki, putOK[ki], len(got), err)
			}
		}
	}
	b, _ := jsonMarshal(c)
	rec.Case(val.HashBytes(b), c.Writers >= 2 && c.Readers >= 1, fmt.Sprintf("writers:%d", c.Writers))
	if rec.WantSample() {
		rec.Sample(c)
	}
	return nil
}

var c18Conc = evid.Part[C18ConcCase]{
	Prop: "C18", Name: "concurrent", Quick: 120, Thorough: 6000,
	Rule: "W writers (Put and chunked PutStream; in half of the cases alternating two complete values of different length under each key) × R readers (GetStream and Get) on overlapping keys of one fsstore, with Gosched/sleep yields injected at hook points by a drawn pattern, built with the race detector; readers must only ever see absent or one complete value, every key with a successful put reads complete afterwards; non-trivial = ≥2 writers and ≥1 reader; sampled schedules, distinct by configuration",
	Gen: func(t *rapid.T) C18ConcCase {
		return C18ConcCase{Writers: rapid.IntRange(1, 6).Draw(t, "writers"), Readers: rapid.IntRange(0, 4).Draw(t, "readers"), Keys: rapid.IntRange(1, 4).Draw(t, "keys"),
			Rounds: rapid.IntRange(1, 12).Draw(t, "rounds"), Yield: rapid.SliceOfN(rapid.Byte(), 0, 16).Draw(t, "yield"), Sharding: rapid.SampledFrom([]string{"r12", "r133", "none"}).Draw(t, "sharding"), Versions: rapid.Bool().Draw(t, "versions")}
	},
	Check: c18ConcCheck,
}.Reg()

func TestRaceC18_Concurrent(t *testing.T) {
	if os.Getenv("VERIF_RACE") != "1" && os.Getenv("VERIF_FORCE") == "" {
		t.Skip("runs in the race-detector plan of the driver")
	}
	c18Conc.Run(t)
}

// ---------------------------------------------------------------------------------------
// real process kills (thorough tier)

func TestC18_KillChild(t *testing.T) {
	dir := os.Getenv("VERIF_FSKILL_DIR")
	if dir == "" {
		t.Skip("child of TestC18_Kill only")
	}
	fs, err := openFS(dir, "hex", "r12")
	if err != nil {
		os.Exit(3)
	}
	ctx := context.Background()
	for i := 0; ; i++ {
		k := fmt.Sprintf("kill-key-%d", i%50)
		c := blob(byte(i%50), 50000+(i%50)*1000)
		if i%2 == 0 {
			_ = fs.Put(ctx, k, c)
		} else {
			w, commit, err := fs.PutStream(ctx)
			if err == nil {
				for off := 0; off < len(c); off += 4096 {
					end := off + 4096
					if end > len(c) {
						end = len(c)
					}
					_, _ = w.Write(c[off:end])
				}
				_ = commit(k)
			}
		}
	}
}

func TestC18_Kill(t *testing.T) {
	if !evid.Thorough() && os.Getenv("VERIF_FORCE") == "" {
		t.Skip("real SIGKILL trials run in the thorough tier only")
	}
	rec := evid.New("C18", "sigkill", "a child process puts 50 keys (Put and chunked PutStream, 50-100 KB blobs) in a loop into one fsstore and is SIGKILLed after a drawn delay; afterwards a new store must find every visible key complete and be usable; each trial is distinct by its kill instant (counted)")
	defer rec.Flush()
	trials := evid.Scale(0, 480)
	dir, err := os.MkdirTemp("", "c18k-")
	if err != nil {
		t.Skip("no scratch")
	}
	defer os.RemoveAll(dir)
	for i := 0; i < trials; i++ {
		cmd := exec.Command(os.Args[0], "-test.run", "^TestC18_KillChild$")
		cmd.Env = append(os.Environ(), "VERIF_FSKILL_DIR="+dir)
		if err := cmd.Start(); err != nil {
			t.Skipf("cannot start child: %v", err)
		}
		delay := time.Duration(5+((i*7919+evid.Seed()*31+evid.Shard()*17)%400)) * time.Millisecond / 4
		time.Sleep(delay)
		_ = cmd.Process.Signal(syscall.SIGKILL)
		_ = cmd.Wait()
		fs, err := openFS(dir, "hex", "r12")
		if err != nil {
			evid.SaveFailure("C18", "sigkill", map[string]any{"trial": i}, err)
			t.Fatalf("C18.sigkill: store cannot be reopened: %v", err)
		}
		visible := 0
		for k := 0; k < 50; k++ {
			key := fmt.Sprintf("kill-key-%d", k)
			got, gerr := fs.Get(context.Background(), key)
			if gerr != nil {
				continue
			}
			visible++
			if !bytes.Equal(got, blob(byte(k), 50000+k*1000)) {
				err := fmt.Errorf("after SIGKILL (trial %d, delay %v) key %s is visible with %d bytes (complete blob: %v)", i, delay, key, len(got), blobComplete(got))
				evid.SaveFailure("C18", "sigkill", map[string]any{"trial": i, "delay_us": delay.Microseconds(), "key": key}, err)
				t.Fatalf("C18.sigkill: %v", err)
			}
		}
		if err := fs.Put(context.Background(), "after-kill", blob(1, 10)); err != nil {
			evid.SaveFailure("C18", "sigkill", map[string]any{"trial": i}, err)
			t.Fatalf("C18.sigkill: store unusable after kill: %v", err)
		}
		rec.CaseCounted(true, fmt.Sprintf("visible-keys>0:%v", visible > 0))
	}
	rec.Sample(map[string]any{"trials": trials, "note": "kill delays 1.25ms..101ms after child start"})
}
