package checks

import (
	"bytes"
	stdjson "encoding/json"
	"fmt"
	"io"
	"strings"
	"testing"

	"github.com/ipld/go-ipld-prime/codec/dagjson"
	ipldjson "github.com/ipld/go-ipld-prime/codec/json"
	"github.com/ipld/go-ipld-prime/datamodel"
	"github.com/ipld/go-ipld-prime/multicodec"
	"github.com/ipld/go-ipld-prime/node/basicnode"
	"pgregory.net/rapid"

	"verif/evid"
	"verif/known"
	"verif/nodes"
	"verif/val"
)

// C04: DAG-JSON encoding round-trips with kinds preserved and is deterministic.

type C04Case struct {
	V    val.V  `json:"v"`
	Perm []byte `json:"perm"`
	Prog []byte `json:"prog"`
	Impl string `json:"impl"`
	// Before: texts decoded first, results ignored (mostly inputs the decoder refuses, some midway through a
	// look-ahead): the round trip that follows must not depend on what the decoder saw before
	Before []string `json:"before,omitempty"`
	// Wide > 0: the value is wrapped as the last element of a list of Wide copies of small containers
	Wide int `json:"wide,omitempty"`
}

var c04BeforeTexts = []string{`{"/":"not a cid"}`, `{"/":{"bytes":"!!!"}}`, `{"/":`, `{"/":{"bytes":`, `{"/":{"bytes":"AA"`, `{"/":{"bytes":"AA"},`, `{"/":"bafkqaaa"`, `[1,`, `{"a":1,"a":2}`,
	`{"/":{"bytes":"AA","x":1}}`, `{"/":"QmXNh4MHXRFhmv4W3LkdFHK2JgaV5qBqfXkxwUD5oApqCT","x":1}`, `1e999999`, `"\ud800"`, `nul`, `[1] x`, `{"/":{"bytes":5}}`, `{"/":{"/":"x"}}`, ``, `{`, `{"/":{"bytes":"AQID"}}`}

func encDagJson(n datamodel.Node) ([]byte, error) {
	var buf bytes.Buffer
	err := evid.Guard("dagjson.Encode", func() error { return dagjson.Encode(n, &buf) })
	return buf.Bytes(), err
}

// jsonKeysAscending scans text with the standard library tokenizer and checks that it is
// valid JSON whose object keys are in strictly ascending bytewise order at every level.
func jsonKeysAscending(text []byte) error {
	if !stdjson.Valid(text) {
		return fmt.Errorf("output is not valid JSON")
	}
	dec := stdjson.NewDecoder(bytes.NewReader(text))
	dec.UseNumber()
	type frame struct {
		obj     bool
		wantKey bool
		last    string
		hasLast bool
	}
	var st []frame
	for {
		tk, err := dec.Token()
		if err == io.EOF {
			return nil
		}
		if err != nil {
			return err
		}
		top := func() *frame {
			if len(st) == 0 {
				return nil
			}
			return &st[len(st)-1]
		}
		switch x := tk.(type) {
		case stdjson.Delim:
			switch x {
			case '{':
				if f := top(); f != nil && f.obj {
					f.wantKey = true
				}
				st = append(st, frame{obj: true, wantKey: true})
			case '[':
				if f := top(); f != nil && f.obj {
					f.wantKey = true
				}
				st = append(st, frame{})
			default:
				st = st[:len(st)-1]
			}
		case string:
			if f := top(); f != nil && f.obj && f.wantKey {
				if f.hasLast && !(f.last < x) {
					return fmt.Errorf("object keys not in ascending bytewise order: %q then %q", f.last, x)
				}
				f.last, f.hasLast, f.wantKey = x, true, false
			} else if f != nil && f.obj {
				f.wantKey = true
			}
		default:
			if f := top(); f != nil && f.obj {
				f.wantKey = true
			}
		}
	}
}

func c04Check(c C04Case, rec *evid.Rec) error {
	for _, text := range c.Before {
		for _, np := range []datamodel.NodePrototype{basicnode.Prototype.Any, basicnode.Prototype.Map} {
			nb := np.NewBuilder()
			if err := evid.Guard("dagjson.Decode", func() error { return dagjson.Decode(nb, strings.NewReader(text)) }); err != nil && strings.HasPrefix(err.Error(), "PANIC") {
				return fmt.Errorf("decoding %q: %v", text, err)
			}
		}
	}
	v := c.V
	if c.Wide > 0 {
		// a wide, shallow list whose elements are containers: nesting depth stays 3 however wide it is
		items := make([]val.V, 0, c.Wide+1)
		for i := 0; i < c.Wide; i++ {
			switch i % 3 {
			case 0:
				items = append(items, val.MkMap(val.Ent{K: "i", V: val.MkInt(int64(i))}))
			case 1:
				items = append(items, val.MkList(val.MkInt(int64(i))))
			default:
				items = append(items, val.MkBytes([]byte{byte(i)}))
			}
		}
		v = val.V{K: val.List, Items: append(items, v)}
	}
	if known.Active("C04-integral-float") {
		// steer around the listed finding: integral-valued floats lose their kind (or fail to decode)
		if w, changed := val.ShiftIntegralFloats(v); changed {
			v = w
			rec.Excluded("C04-integral-float")
		}
	}
	permuted := val.Permute(v, c.Perm)
	impl := nodes.Impl(c.Impl)
	n, err := nodes.Build(permuted, nodes.NewProg(c.Prog), nodes.ProtoFor(impl, v.K))
	if err != nil {
		return fmt.Errorf("building the value with %s failed: %w", impl, err)
	}
	enc, err := encDagJson(n)
	if err != nil {
		return fmt.Errorf("dagjson.Encode failed on an expressible value %s: %w", v.Short(200), err)
	}
	n0, err := nodes.BuildDefault(v)
	if err != nil {
		return err
	}
	enc0, err := encDagJson(n0)
	if err != nil {
		return fmt.Errorf("dagjson.Encode failed: %w", err)
	}
	if !bytes.Equal(enc, enc0) {
		return fmt.Errorf("encoding depends on insertion order or implementation (%s): %s vs %s", impl, clipText(enc), clipText(enc0))
	}
	if e, err := multicodec.LookupEncoder(0x0129); err != nil {
		return fmt.Errorf("no dag-json encoder registered")
	} else {
		var buf bytes.Buffer
		if err := evid.Guard("registry encoder", func() error { return e(n, &buf) }); err != nil || !bytes.Equal(buf.Bytes(), enc) {
			return fmt.Errorf("registered dag-json encoder disagrees: err=%v %s vs %s", err, clipText(buf.Bytes()), clipText(enc))
		}
	}
	if err := jsonKeysAscending(enc); err != nil {
		return fmt.Errorf("%v in %s", err, clipText(enc))
	}
	want := v.SortKeys(val.LessBytewise)
	for _, target := range []nodes.Impl{nodes.BasicAny, impl} {
		nb := nodes.ProtoFor(target, v.K).NewBuilder()
		if err := evid.Guard("dagjson.Decode", func() error { return dagjson.Decode(nb, c03Reader(enc)) }); err != nil {
			return fmt.Errorf("dagjson.Decode of its own output %s failed: %w", clipText(enc), err)
		}
		got, err := nodes.Full.Read(nb.Build())
		if err != nil {
			return fmt.Errorf("decoded node is inconsistent: %w", err)
		}
		if !val.Equal(got, want, val.Ordered) {
			return fmt.Errorf("decode(encode(v)) differs from v: %s (got vs want; text %s)", val.Diff(got, want), clipText(enc))
		}
	}
	// plain json codec: no bytes, no links; order preserved
	special := v.Has(func(x val.V) bool { return x.K == val.Bytes || x.K == val.Link })
	var jb bytes.Buffer
	jerr := evid.Guard("json.Encode", func() error { return ipldjson.Encode(n, &jb) })
	if special {
		if jerr == nil {
			return fmt.Errorf("plain json codec encoded a value containing bytes or links: %s", clipText(jb.Bytes()))
		}
	} else {
		if jerr != nil {
			return fmt.Errorf("json.Encode failed: %w", jerr)
		}
		if !stdjson.Valid(jb.Bytes()) {
			return fmt.Errorf("json.Encode output is not valid JSON: %s", clipText(jb.Bytes()))
		}
		nb := nodes.ProtoFor(nodes.BasicAny, v.K).NewBuilder()
		if err := evid.Guard("json.Decode", func() error { return ipldjson.Decode(nb, c03Reader(jb.Bytes())) }); err != nil {
			return fmt.Errorf("json.Decode of its own output %s failed: %w", clipText(jb.Bytes()), err)
		}
		got, err := nodes.Full.Read(nb.Build())
		if err != nil {
			return err
		}
		if !val.Equal(got, permuted, val.Ordered) {
			return fmt.Errorf("json round trip differs: %s (got vs want)", val.Diff(got, permuted))
		}
	}
	nt := v.Has(func(x val.V) bool {
		if x.K == val.Float || x.K == val.Bytes || x.K == val.Link {
			return true
		}
		if x.K == val.Map {
			for _, e := range x.Ents {
				for i := 0; i < len(e.K); i++ {
					if e.K[i] < 0x20 || e.K[i] == '"' || e.K[i] == '\\' || e.K[i] >= 0x80 {
						return true
					}
				}
			}
		}
		return false
	}) || !val.Equal(permuted, want, val.Ordered)
	rec.Case(val.HashBytes(append(enc, c.Impl...)), nt, "impl:"+c.Impl)
	if nt && rec.WantSample() && len(enc) < 300 && v.Size() > 3 {
		rec.Sample(map[string]any{"value": v.String(), "impl": c.Impl, "text": string(enc)})
	}
	return nil
}

func clipText(b []byte) string {
	if len(b) > 300 {
		return fmt.Sprintf("%q…(%d bytes)", b[:300], len(b))
	}
	return fmt.Sprintf("%q", b)
}

var c04Part = evid.Part[C04Case]{
	Prop: "C04", Name: "roundtrip", Quick: 4000, Thorough: 400000,
	Rule: "DAG-JSON-expressible value (int64, finite floats, valid UTF-8, bytes, links; reserved shapes excluded by construction) × insertion permutation × builder program × implementation, optionally as the last element of a 1000..2100-wide list of small containers, optionally after decoding 1-3 texts the decoder refuses (results ignored: the round trip must not depend on what the decoder saw before); non-trivial = contains a float, bytes, link, a key needing an escape or non-ASCII, or a map whose insertion order differs from sorted order; distinct by (output text, implementation)",
	Gen: func(t *rapid.T) C04Case {
		p := val.Profile{MaxDepth: 4, MaxWidth: 5, Wide: true, Float: true, Bytes: true, Links: true, Null: true, JSONSafe: true, UTF8Only: true}
		c := C04Case{
			V:    val.DrawV(t, &p, "v"),
			Perm: rapid.SliceOfN(rapid.Byte(), 0, 24).Draw(t, "perm"),
			Prog: rapid.SliceOfN(rapid.Byte(), 0, 24).Draw(t, "prog"),
			Impl: string(rapid.SampledFrom(nodes.Impls).Draw(t, "impl")),
		}
		if rapid.IntRange(0, 3).Draw(t, "hasbefore") == 0 {
			c.Before = rapid.SliceOfN(rapid.SampledFrom(c04BeforeTexts), 1, 3).Draw(t, "before")
		}
		if rapid.IntRange(0, 59).Draw(t, "wide") == 0 {
			c.Wide = rapid.SampledFrom([]int{1000, 1022, 1023, 1024, 1025, 1500, 2100}).Draw(t, "widen")
		}
		return c
	},
	Check: c04Check,
}.Reg()

func TestC04_RoundTrip(t *testing.T) { c04Part.Run(t) }
