package checks

import (
	"bytes"
	"math"
	"testing"
	"unicode/utf8"

	"github.com/ipld/go-ipld-prime/codec/dagjson"
	"github.com/ipld/go-ipld-prime/node/basicnode"

	"verif/evid"
	"verif/graph"
	"verif/nodes"
	"verif/refcbor"
	"verif/val"
)

// Native coverage-guided fuzz targets (thorough tier). The semantic oracle is inside each
// target; a failing input is also saved as an ordinary replay case.

func optFromByte(b byte, b2 byte) C10Opt {
	return C10Opt{
		MaxDepth: []int64{0, 1, 2, 7}[b&3],
		Budget:   []int64{0, 1, 64, 4096}[(b>>2)&3],
		Prealloc: []int64{0, 1, 16, 1 << 40}[(b>>4)&3],
		Relaxed:  b&0x40 != 0, Links: b&0x80 == 0, ParseBytes: b2&1 == 0, NoEnd: b2&6 == 6,
	}
}

func seedCbor(f *testing.F) {
	for _, b := range c10HostileCbor {
		if len(b) < 300 {
			f.Add(b, byte(0), byte(0))
		}
	}
	for _, v := range []val.V{val.MkMap(val.Ent{K: "a", V: val.MkList(val.MkInt(1), val.MkFloat(1.5), val.MkBytes([]byte{1, 2}))}, val.Ent{K: "bb", V: val.MkLink(val.MakeCidV1(0x71, 0x12, bytes.Repeat([]byte{3}, 32)))}),
		val.MkList(val.MkNull(), val.MkBool(true), val.MkString("héllo"), val.MkUint(1<<63), val.MkInt(-1<<63))} {
		b, _ := refcbor.Encode(v)
		f.Add(b, byte(0), byte(0))
		f.Add(b, byte(0x55), byte(1))
	}
}

func FuzzC10DagCbor(f *testing.F) {
	seedCbor(f)
	rec := evid.New("C10", "fuzz-dagcbor", "")
	f.Fuzz(func(t *testing.T, data []byte, o1, o2 byte) {
		if len(data) > 4096 {
			return
		}
		codec := "dag-cbor"
		if o2&8 != 0 {
			codec = "cbor"
		}
		c := C10Case{Codec: codec, Bytes: data, Opt: optFromByte(o1, o2), Target: c10Targets[int(o2>>4)%len(c10Targets)], Source: "native-fuzz"}
		if err := c10Check(c, rec); err != nil {
			evid.SaveFailure("C10", "decoders", c, err)
			t.Fatalf("%v", err)
		}
		// the strictness differential of C03 rides along (default limits only)
		if len(data) <= 512 {
			for _, mode := range c03Modes {
				if _, _, err := c03Eval(data, mode); err != nil {
					evid.SaveFailure("C03", "mutants", C03Case{Bytes: data, Mode: mode, Note: "native-fuzz"}, err)
					t.Fatalf("%v", err)
				}
			}
		}
	})
}

func FuzzC10DagJson(f *testing.F) {
	for _, b := range c10HostileJson {
		if len(b) < 300 {
			f.Add(b, byte(0), byte(0))
		}
	}
	f.Add([]byte(`{"a":[1,2.5,"x",null,true,{"/":"bafyreigdmqpykrgxyaxtlafqpqhzrb7qy2rh75nldvfd4tucqmqqme5yje"},{"/":{"bytes":"AQID"}}]}`), byte(0), byte(0))
	rec := evid.New("C10", "fuzz-dagjson", "")
	f.Fuzz(func(t *testing.T, data []byte, o1, o2 byte) {
		if len(data) > 4096 {
			return
		}
		codec := "dag-json"
		if o2&8 != 0 {
			codec = "json"
		}
		c := C10Case{Codec: codec, Bytes: data, Opt: optFromByte(o1, o2), Target: c10Targets[int(o2>>4)%len(c10Targets)], Source: "native-fuzz"}
		if err := c10Check(c, rec); err != nil {
			evid.SaveFailure("C10", "decoders", c, err)
			t.Fatalf("%v", err)
		}
	})
}

func FuzzC10Selector(f *testing.F) {
	for _, s := range []string{`{".":{}}`, `{"a":{">":{".":{}}}}`, `{"R":{"l":{"none":{}},":>":{"|":[{".":{}},{"a":{">":{"@":{}}}}]}}}`, `{"R":{"l":{"depth":2},":>":{"f":{"f>":{"a":{"@":{}}}}}}}`,
		`{"r":{"^":0,"$":3,">":{".":{"subset":{"[":1,"]":-1}}}}}`, `{"i":{"i":1,">":{".":{}}}}`, `{"R":{"l":{"none":{}},":>":{"|":[{"@":{}},{"a":{">":{".":{}}}}]}}}`} {
		f.Add([]byte(s))
	}
	g := graph.Graph{Blocks: []val.V{val.MkMap(val.Ent{K: "a", V: val.MkList(val.MkInt(1), val.MkString("abcdef"))})}}
	g.Root = val.MkMap(val.Ent{K: "a", V: val.MkList(val.MkInt(1), val.MkMap(val.Ent{K: "a", V: val.MkBytes([]byte("0123456789"))}))}, val.Ent{K: "l", V: val.MkLink(graph.CidOf(g.Blocks[0]))})
	rec := evid.New("C10", "fuzz-selector", "")
	f.Fuzz(func(t *testing.T, data []byte) {
		if len(data) > 2048 {
			return
		}
		nb := basicnode.Prototype.Any.NewBuilder()
		if err := dagjson.Decode(nb, bytes.NewReader(data)); err != nil {
			return
		}
		spec, err := nodes.Read(nb.Build())
		if err != nil {
			return
		}
		c := C10SelCase{Spec: spec, G: g}
		if err := c10SelCheck(c, rec); err != nil {
			evid.SaveFailure("C10", "selectors", c, err)
			t.Fatalf("%v", err)
		}
	})
}

// ---- coverage-guided value generators for the encode-side properties ----------------------
// The fuzzer's bytes are decoded into a data-model value (by the reference CBOR decoder, or by the
// DAG-JSON decoder used only as a parser); a value inside the property's domain is then put
// through the same check as the rapid part, so a failure is an ordinary, replayable case of that part.

func FuzzC02Values(f *testing.F) {
	seedCbor(f)
	rec := evid.New("C02", "fuzz-values", "")
	f.Fuzz(func(t *testing.T, data []byte, o1, o2 byte) {
		if len(data) > 2048 {
			return
		}
		v, _, _, rej := refcbor.Decode(data, refcbor.Opts{CidOK: cidOK})
		if rej != nil {
			return
		}
		c := C02Case{V: v, Perm: []byte{o1, o2, o1 ^ o2}, Prog: []byte{o2, o1}, Impl: string(nodes.Impls[int(o1>>6)%len(nodes.Impls)])}
		if err := c02Check(c, rec); err != nil {
			evid.SaveFailure("C02", "encode", c, err)
			t.Fatalf("%v", err)
		}
	})
}

func c04InDomain(v val.V) bool {
	ok := true
	v.Walk(func(x val.V) {
		switch x.K {
		case val.String:
			ok = ok && utf8.ValidString(x.S)
		case val.Uint:
			ok = false
		case val.Float:
			ok = ok && !math.IsNaN(x.F) && !math.IsInf(x.F, 0)
		case val.Map:
			for _, e := range x.Ents {
				ok = ok && utf8.ValidString(e.K)
			}
			ok = ok && !val.IsReservedShape(x)
		}
	})
	return ok
}

func FuzzC04Values(f *testing.F) {
	for _, b := range c10HostileJson {
		if len(b) < 200 {
			f.Add(b, byte(0), byte(0))
		}
	}
	f.Add([]byte(`{"a":[1,2.5,"x",null,true,{"/":"bafyreigdmqpykrgxyaxtlafqpqhzrb7qy2rh75nldvfd4tucqmqqme5yje"},{"/":{"bytes":"AQID"}}],"/":"x","é":-0.5e-7}`), byte(0), byte(0))
	f.Add([]byte(`{"/":{"bytes":"AQID"},"x":{"/":"not a cid","y":[]}}`), byte(1), byte(2))
	rec := evid.New("C04", "fuzz-values", "")
	f.Fuzz(func(t *testing.T, data []byte, o1, o2 byte) {
		if len(data) > 2048 {
			return
		}
		nb := basicnode.Prototype.Any.NewBuilder()
		if err := evid.Guard("dagjson.Decode", func() error { return dagjson.Decode(nb, bytes.NewReader(data)) }); err != nil {
			return
		}
		v, err := nodes.Read(nb.Build())
		if err != nil || !c04InDomain(v) {
			return
		}
		c := C04Case{V: v, Perm: []byte{o1, o2, o1 ^ o2}, Prog: []byte{o2, o1}, Impl: string(nodes.Impls[int(o1>>6)%len(nodes.Impls)])}
		if err := c04Check(c, rec); err != nil {
			evid.SaveFailure("C04", "roundtrip", c, err)
			t.Fatalf("%v", err)
		}
	})
}
