package checks

import (
	"bytes"
	"context"
	"fmt"
	"strings"
	"testing"

	"github.com/ipld/go-ipld-prime/datamodel"
	"github.com/ipld/go-ipld-prime/linking"
	cidlink "github.com/ipld/go-ipld-prime/linking/cid"
	"github.com/ipld/go-ipld-prime/node/basicnode"
	"github.com/ipld/go-ipld-prime/node/bindnode"
	"github.com/ipld/go-ipld-prime/schema"
	"github.com/ipld/go-ipld-prime/storage/memstore"
	"pgregory.net/rapid"

	"verif/evid"
	"verif/known"
	"verif/lk"
	"verif/nodes"
	"verif/refcbor"
	"verif/tschema"
	"verif/val"
)

// C05: links are a function of value and prototype; store then load returns the value.

type C05Op struct {
	Kind string `json:"kind"` // store | compute | load | loadraw | loadplusraw | fill
	V    val.V  `json:"v"`
	Perm []byte `json:"perm,omitempty"`
	Prog []byte `json:"prog,omitempty"`
	Impl string `json:"impl,omitempty"`
	LP   lk.LP  `json:"lp"`
	Ref  int    `json:"ref"` // which earlier stored link a load refers to (modulo the number stored)
	// ProtoOf > 0: store/compute with the prototype returned by Prototype() of the (ProtoOf-1)th stored link
	// (when its codec is LP's), the usual way callers re-store a changed node; LP is then only the codec carrier.
	ProtoOf int `json:"proto_of,omitempty"`
	// Typed: the node is a schema-typed node (a bindnode struct with tuple representation) holding
	// {"a": Ref, "b": Impl}: Store and ComputeLink treat it alike, and it loads back as that map
	Typed bool `json:"typed,omitempty"`
}

var c05TypedProto = func() schema.TypedPrototype {
	s := tschema.Schema{Types: []tschema.TypeSpec{{Name: "C05T", Kind: "struct", Repr: "tuple", Fields: []tschema.FieldSpec{{Name: "a", Type: "Int"}, {Name: "b", Type: "String"}}}}}
	ts, err := s.Build()
	if err != nil {
		panic(err)
	}
	return bindnode.Prototype(nil, ts.TypeByName("C05T"))
}()

type C05Case struct {
	Storage string  `json:"storage"` // memstore | cidmemory
	Private bool    `json:"private_registry"`
	Ops     []C05Op `json:"ops"`
}

type c05Stored struct {
	link   datamodel.Link
	expect val.V // what a load must read
	lp     lk.LP
}

type c05Kept struct {
	raw    []byte
	n      datamodel.Node
	expect val.V
	link   datamodel.Link
	op     int
}

func drawLP(t *rapid.T, allowV0 bool, minTrunc int) lk.LP {
	if allowV0 && rapid.IntRange(0, 7).Draw(t, "v0") == 0 {
		return lk.LP{Version: 0, Codec: lk.CodecDagPb, MhType: 0x12, MhLength: rapid.SampledFrom([]int{-1, 32}).Draw(t, "v0len")}
	}
	h := rapid.SampledFrom(lk.Hashes).Draw(t, "hash")
	lp := lk.LP{Version: 1, Codec: rapid.SampledFrom(lk.Codecs).Draw(t, "codec"), MhType: h.Code, MhLength: -1}
	if h.Size < 0 {
		// identity: the documented behaviour is that the length is ignored (the digest is the whole block)
		if rapid.Bool().Draw(t, "idlen") {
			lp.MhLength = rapid.IntRange(0, 80).Draw(t, "idlenv")
		}
	}
	if h.Size > 0 {
		switch rapid.IntRange(0, 3).Draw(t, "lenmode") {
		case 0:
			lp.MhLength = h.Size
		case 1:
			if minTrunc < h.Size {
				lp.MhLength = rapid.IntRange(minTrunc, h.Size-1).Draw(t, "trunc")
			}
		}
	}
	return lp
}

func drawCodecValue(t *rapid.T, codec uint64) val.V {
	if codec == lk.CodecRaw {
		return val.MkBytes(rapid.SliceOfN(rapid.Byte(), 0, 64).Draw(t, "raw"))
	}
	p := lk.CodecProfile(codec)
	return val.DrawV(t, &p, "v")
}

func c05Key(lp lk.LP, v val.V) string {
	if less := lk.CodecOrder(lp.Codec); less != nil {
		v = v.SortKeys(less)
	}
	l := lp
	if h, ok := lk.HashByCode(lp.MhType); ok && (l.MhLength == h.Size || h.Size < 0) {
		l.MhLength = -1 // the full length and -1 denote the same link
	}
	return l.String() + "|" + string(v.AppendCanon(nil))
}

func c05Check(c C05Case, rec *evid.Rec) error {
	// the private registry is filled in an order that is a deterministic function of the case
	lsys := lk.LinkSystemFilled(c.Private, len(c.Ops))
	var mem *memstore.Store
	var cmem *cidlink.Memory
	rawGet := func(l datamodel.Link) ([]byte, bool) {
		if mem != nil {
			b, ok := mem.Bag[l.Binary()]
			return b, ok
		}
		b, ok := cmem.Bag[string(l.(cidlink.Link).Hash())]
		return b, ok
	}
	size := func() int {
		if mem != nil {
			return len(mem.Bag)
		}
		return len(cmem.Bag)
	}
	if c.Storage == "cidmemory" {
		cmem = &cidlink.Memory{Bag: map[string][]byte{}}
		lsys.StorageReadOpener = cmem.OpenRead
		lsys.StorageWriteOpener = cmem.OpenWrite
	} else {
		mem = &memstore.Store{Bag: map[string][]byte{}}
		lsys.SetReadStorage(mem)
		lsys.SetWriteStorage(mem)
	}
	model := map[string]string{} // (prototype, value) -> link binary
	var stored []c05Stored
	impls := map[string]bool{}
	protos := map[string]bool{}
	storeThenLoad := false
	reusedProto := false
	var keptRaw, keptNodes []c05Kept
	steer := known.Active("C04-integral-float")

	for i, op := range c.Ops {
		where := fmt.Sprintf("op %d (%s, %s)", i, op.Kind, op.LP)
		kind := op.Kind
		if kind != "store" && kind != "compute" && len(stored) == 0 {
			continue // nothing to load yet (only in shrunk cases; the generator stores first)
		}
		switch kind {
		case "store", "compute":
			v := op.V
			if steer && (op.LP.Codec == lk.CodecDagJson || op.LP.Codec == lk.CodecJson) {
				if w, ch := val.ShiftIntegralFloats(v); ch {
					v = w
					rec.Excluded("C04-integral-float")
				}
			}
			typed := op.Typed && op.LP.Codec != lk.CodecRaw
			if typed {
				v = val.MkMap(val.Ent{K: "a", V: val.MkInt(int64(op.Ref))}, val.Ent{K: "b", V: val.MkString(op.Impl)})
			}
			permuted := val.Permute(v, op.Perm)
			np := nodes.ProtoFor(nodes.Impl(op.Impl), v.K)
			if typed {
				permuted, np = v, c05TypedProto
			}
			n, err := nodes.Build(permuted, nodes.NewProg(op.Prog), np)
			if err != nil {
				return fmt.Errorf("%s: building the node failed: %w", where, err)
			}
			impls[op.Impl] = true
			var lp datamodel.LinkPrototype = op.LP.Proto()
			if op.ProtoOf > 0 && len(stored) > 0 {
				if s := stored[(op.ProtoOf-1)%len(stored)]; s.lp.Codec == op.LP.Codec {
					var got datamodel.LinkPrototype
					if err := evid.Guard("Link.Prototype", func() error { got = s.link.Prototype(); return nil }); err != nil {
						return fmt.Errorf("%s: %w", where, err)
					}
					clp, ok := got.(cidlink.LinkPrototype)
					if !ok {
						return fmt.Errorf("%s: Prototype() of %s is a %T", where, s.link, got)
					}
					eff := lk.LP{Version: clp.Version, Codec: clp.Codec, MhType: clp.MhType, MhLength: clp.MhLength}
					if eff.Version != s.lp.Version || eff.Codec != s.lp.Codec || eff.MhType != s.lp.MhType {
						return fmt.Errorf("%s: Prototype() of a link stored with %s is %s", where, s.lp, eff)
					}
					lp, op.LP = got, eff
					reusedProto = true
				}
			}
			protos[op.LP.String()] = true
			var l2 datamodel.Link
			if err := evid.Guard("ComputeLink", func() error { var e error; l2, e = lsys.ComputeLink(lp, n); return e }); err != nil {
				return fmt.Errorf("%s: ComputeLink failed for %s: %w", where, v.Short(200), err)
			}
			before := size()
			lnk := l2
			if kind == "store" {
				var l1 datamodel.Link
				if err := evid.Guard("Store", func() error {
					var e error
					l1, e = lsys.Store(linking.LinkContext{Ctx: context.Background()}, lp, n)
					return e
				}); err != nil {
					return fmt.Errorf("%s: Store failed for %s: %w", where, v.Short(200), err)
				}
				if l1.Binary() != l2.Binary() {
					return fmt.Errorf("%s: Store returned %s but ComputeLink returned %s", where, l1, l2)
				}
				lnk = l1
				blk, ok := rawGet(l1)
				if !ok {
					return fmt.Errorf("%s: Store succeeded but storage holds nothing under the link %s", where, l1)
				}
				want, err := lk.ExpectedCid(op.LP, blk)
				if err != nil {
					return err
				}
				if want != l1.Binary() {
					return fmt.Errorf("%s: link %x is not the content address of the stored block (independent construction gives %x)", where, l1.Binary(), want)
				}
				expect := permuted
				if less := lk.CodecOrder(op.LP.Codec); less != nil {
					expect = v.SortKeys(less)
				}
				stored = append(stored, c05Stored{link: l1, expect: expect, lp: op.LP})
			} else if size() != before {
				return fmt.Errorf("%s: ComputeLink wrote to storage", where)
			}
			// independent link for dag-cbor: reference bytes, reference hash, hand-built CID
			if op.LP.Codec == lk.CodecDagCbor || op.LP.Codec == lk.CodecDagPb {
				ref, err := refcbor.Encode(v)
				if err == nil {
					want, err := lk.ExpectedCid(op.LP, ref)
					if err != nil {
						return err
					}
					if want != lnk.Binary() {
						return fmt.Errorf("%s: link %x differs from the independently computed link %x of %s", where, lnk.Binary(), want, v.Short(200))
					}
				}
			}
			key := c05Key(op.LP, permutedOrSorted(op.LP, v, permuted))
			if prev, ok := model[key]; ok && prev != lnk.Binary() {
				return fmt.Errorf("%s: same prototype and value gave link %x earlier and %x now (value %s)", where, prev, lnk.Binary(), v.Short(200))
			}
			model[key] = lnk.Binary()
		default:
			s := stored[op.Ref%len(stored)]
			np := datamodel.NodePrototype(basicnode.Prototype.Any)
			if s.lp.Codec != lk.CodecRaw && (s.expect.K == val.Map || s.expect.K == val.List) && op.Impl != "" {
				np = nodes.ProtoFor(nodes.Impl(op.Impl), s.expect.K)
			}
			var n datamodel.Node
			var raw []byte
			var err error
			lctx := linking.LinkContext{Ctx: context.Background()}
			switch kind {
			case "load":
				err = evid.Guard("Load", func() error { var e error; n, e = lsys.Load(lctx, s.link, np); return e })
			case "loadraw":
				err = evid.Guard("LoadRaw", func() error { var e error; raw, e = lsys.LoadRaw(lctx, s.link); return e })
			case "loadplusraw":
				err = evid.Guard("LoadPlusRaw", func() error { var e error; n, raw, e = lsys.LoadPlusRaw(lctx, s.link, np); return e })
			case "fill":
				nb := np.NewBuilder()
				err = evid.Guard("Fill", func() error { return lsys.Fill(lctx, s.link, nb) })
				if err == nil {
					n = nb.Build()
				}
			default:
				return fmt.Errorf("bad op kind %q", kind)
			}
			if err != nil {
				return fmt.Errorf("%s: loading %s back from the storage it was stored in failed: %w", where, s.link, err)
			}
			storeThenLoad = true
			if n != nil {
				got, err := nodes.Full.Read(n)
				if err != nil {
					return fmt.Errorf("%s: loaded node inconsistent: %w", where, err)
				}
				if !val.Equal(got, s.expect, val.Ordered) {
					return fmt.Errorf("%s: loaded node differs from the stored one: %s (got vs want)", where, val.Diff(got, s.expect))
				}
			}
			if kind == "loadraw" || kind == "loadplusraw" {
				blk, _ := rawGet(s.link)
				if !bytes.Equal(raw, blk) {
					return fmt.Errorf("%s: raw bytes differ from what storage holds", where)
				}
				ok, err := lk.DigestOK(s.link.Binary(), raw)
				if err != nil || !ok {
					return fmt.Errorf("%s: raw bytes do not hash to the link (%v)", where, err)
				}
				keptRaw = append(keptRaw, c05Kept{raw: raw, link: s.link, op: i})
			}
			if n != nil {
				keptNodes = append(keptNodes, c05Kept{n: n, expect: s.expect, link: s.link, op: i})
			}
		}
	}
	// what earlier loads returned is still right after everything that followed
	for _, k := range keptRaw {
		if ok, err := lk.DigestOK(k.link.Binary(), k.raw); err != nil || !ok {
			return fmt.Errorf("raw bytes returned by op %d for %s no longer hash to the link after later operations (%v)", k.op, k.link, err)
		}
	}
	for _, k := range keptNodes {
		if got, err := nodes.Read(k.n); err != nil || !val.Equal(got, k.expect, val.Ordered) {
			return fmt.Errorf("the node loaded by op %d for %s changed after later operations: %s (err %v)", k.op, k.link, val.Diff(got, k.expect), err)
		}
	}
	nt := storeThenLoad && (len(impls) >= 2 || len(protos) >= 2)
	b, _ := jsonMarshal(c)
	cls := []string{"storage:" + c.Storage, fmt.Sprintf("ops:%d", len(c.Ops)/5*5)}
	if reusedProto {
		cls = append(cls, "reused-prototype-of-a-link")
	}
	for p := range protos {
		if strings.Contains(p, "/mh=0x0/") {
			cls = append(cls, "identity-hash")
			break
		}
	}
	rec.Case(val.HashBytes(b), nt, cls...)
	if nt && rec.WantSample() && len(b) < 3000 {
		rec.Sample(c)
	}
	return nil
}

func permutedOrSorted(lp lk.LP, v, permuted val.V) val.V {
	if lk.CodecOrder(lp.Codec) != nil {
		return v
	}
	return permuted
}

var c05Part = evid.Part[C05Case]{
	Prop: "C05", Name: "history", Quick: 2000, Thorough: 1000000,
	Rule: "history of ≤25 store/compute/load/loadraw/loadplusraw/fill operations on one link system (default or private registry with CIDv0) and one storage (memstore, cidlink.Memory), values drawn per codec domain (some held by a schema-typed node: a bindnode struct with tuple representation), link prototypes over CID version × 5 codecs × 10 hash functions × full/truncated(≥8 bytes)/-1 lengths; non-trivial = a store followed by a load of that link, and ≥2 prototypes or implementations in the history; distinct by the whole history",
	Gen: func(t *rapid.T) C05Case {
		c := C05Case{Storage: rapid.SampledFrom([]string{"memstore", "cidmemory"}).Draw(t, "storage"), Private: rapid.Bool().Draw(t, "private")}
		n := rapid.IntRange(1, 25).Draw(t, "nops")
		nStored := 0
		var pool []C05Op // earlier (value, lp) pairs to repeat with another implementation / order
		var storedLPs []lk.LP
		for i := 0; i < n; i++ {
			kind := rapid.SampledFrom([]string{"store", "store", "compute", "load", "loadraw", "loadplusraw", "fill"}).Draw(t, "kind")
			if kind != "compute" && nStored == 0 {
				kind = "store"
			}
			if kind == "store" {
				nStored++
			}
			op := C05Op{Kind: kind, Ref: rapid.IntRange(0, 30).Draw(t, "ref"), Impl: string(rapid.SampledFrom(nodes.Impls).Draw(t, "impl"))}
			if kind == "store" || kind == "compute" {
				if len(pool) > 0 && rapid.IntRange(0, 2).Draw(t, "repeat") == 0 {
					prev := pool[rapid.IntRange(0, len(pool)-1).Draw(t, "which")]
					op.V, op.LP = prev.V, prev.LP
				} else if len(storedLPs) > 0 && rapid.IntRange(0, 3).Draw(t, "protoof") == 0 {
					// a new value under the prototype taken from an earlier link
					j := rapid.IntRange(0, len(storedLPs)-1).Draw(t, "protoofwhich")
					op.ProtoOf, op.LP = j+1, storedLPs[j]
					op.V = drawCodecValue(t, op.LP.Codec)
				} else {
					op.LP = drawLP(t, c.Private, 8)
					op.V = drawCodecValue(t, op.LP.Codec)
				}
				op.Typed = rapid.IntRange(0, 5).Draw(t, "typed") == 0
				op.Perm = rapid.SliceOfN(rapid.Byte(), 0, 8).Draw(t, "perm")
				op.Prog = rapid.SliceOfN(rapid.Byte(), 0, 8).Draw(t, "prog")
				pool = append(pool, op)
				if kind == "store" {
					storedLPs = append(storedLPs, op.LP)
				}
			}
			c.Ops = append(c.Ops, op)
		}
		return c
	},
	Check: c05Check,
}.Reg()

func TestC05_History(t *testing.T) { c05Part.Run(t) }
