package checks

import (
	"fmt"
	"testing"

	"github.com/ipld/go-ipld-prime/traversal"
	"github.com/ipld/go-ipld-prime/traversal/selector"
	"pgregory.net/rapid"

	"verif/evid"
	"verif/graph"
	"verif/refsel"
	"verif/selx"
	"verif/val"
)

// C07: a selector walk visits exactly what the selector denotes, in document order.

type C07Case struct {
	G graph.Graph `json:"graph"`
	S refsel.Sel  `json:"selector"`
}

func genGraphSel(t *rapid.T, depth int) C07Case { return genGraphSelOpt(t, depth, false) }

// genGraphSelOpt: with aliases, some links address a block's bytes under the raw codec (same multihash, another
// CID: it loads as a bytes leaf), and stop-at conditions may name either address.
func genGraphSelOpt(t *rapid.T, depth int, aliases bool) C07Case {
	o := graph.DefaultOpts()
	o.LinkHeavy = rapid.Bool().Draw(t, "linkheavy")
	o.RawAliases = aliases
	o.IdAliases = aliases
	g := graph.Draw(t, o)
	var links []string
	for _, b := range g.Blocks {
		links = append(links, graph.CidOf(b))
		if aliases {
			links = append(links, graph.RawCidOf(b))
		}
	}
	seen := map[string]bool{}
	var names []string
	collect := func(x val.V) {
		for _, e := range x.Ents {
			if !seen[e.K] {
				seen[e.K] = true
				names = append(names, e.K)
			}
		}
	}
	g.Root.Walk(collect)
	for _, b := range g.Blocks {
		b.Walk(collect)
	}
	return C07Case{G: g, S: refsel.Draw(t, refsel.GenOpts{Depth: depth, Links: links, Names: names})}
}

func c07Check(c C07Case, rec *evid.Rec) error {
	want := refsel.Walk(c.G, c.S)
	if want.Err != "" {
		return nil // cannot happen: generated graphs have no dangling links
	}
	if len(want.Visits) > 5000 {
		rec.Class("skipped:too-many-visits")
		return nil
	}
	real, err := graph.Realise(c.G, nil)
	if err != nil {
		return err
	}
	type compiled struct {
		how string
		sel selector.Selector
	}
	var sels []compiled
	s1, err := selx.CompileSpec(c.S)
	if err != nil {
		return fmt.Errorf("selector %s does not compile from its spec: %w", c.S, err)
	}
	sels = append(sels, compiled{"spec", s1})
	if !selx.HasStopAt(c.S) {
		s2, err := selx.CompileBuilder(c.S)
		if err != nil {
			return fmt.Errorf("selector %s does not compile through the builder: %w", c.S, err)
		}
		sels = append(sels, compiled{"builder", s2})
	}
	s3, err := selx.CompileJSON(c.S)
	if err != nil {
		return fmt.Errorf("selector %s does not compile from JSON text: %w", c.S, err)
	}
	sels = append(sels, compiled{"json", s3})
	var wantMatches []refsel.Visit
	for _, v := range want.Visits {
		if v.Reason == "m" {
			wantMatches = append(wantMatches, v)
		}
	}
	for _, cs := range sels {
		got := selx.WalkAdv(real, traversal.Progress{Cfg: selx.Config(real)}, cs.sel)
		if got.Err != nil {
			return fmt.Errorf("WalkAdv (%s) of %s failed: %w", cs.how, c.S, got.Err)
		}
		if d := selx.DiffVisits(got.Visits, want.Visits); d != "" {
			return fmt.Errorf("WalkAdv (%s) of %s differs from the selector's denotation: %s", cs.how, c.S, d)
		}
		if d := selx.DiffLoads(got.Loads, want.Loads); d != "" {
			return fmt.Errorf("WalkAdv (%s) of %s loaded other blocks than the denotation: %s", cs.how, c.S, d)
		}
		gm := selx.WalkMatching(real, traversal.Progress{Cfg: selx.Config(real)}, cs.sel)
		if gm.Err != nil {
			return fmt.Errorf("WalkMatching (%s) of %s failed: %w", cs.how, c.S, gm.Err)
		}
		if d := selx.DiffVisits(gm.Visits, wantMatches); d != "" {
			return fmt.Errorf("WalkMatching (%s) of %s differs from the matched subset: %s", cs.how, c.S, d)
		}
		if d := selx.DiffLoads(gm.Loads, want.Loads); d != "" {
			return fmt.Errorf("WalkMatching (%s) of %s loaded other blocks: %s", cs.how, c.S, d)
		}
	}
	kinds := map[string]bool{}
	c.S.Kinds(kinds)
	nt := len(want.Visits) >= 3 && (len(kinds) >= 2 || want.Recursed || len(want.Loads) > 0)
	cls := []string{}
	for k := range kinds {
		cls = append(cls, "clause:"+k)
	}
	if want.Recursed {
		cls = append(cls, "recursed")
	}
	if len(want.Loads) > 0 {
		cls = append(cls, "crossed-link")
	}
	if len(wantMatches) > 0 {
		cls = append(cls, "has-match")
	}
	for _, l := range want.Loads {
		if len(l) > 1 && l[1] == 0x55 {
			cls = append(cls, "crossed-raw-alias-link")
			break
		}
	}
	b, _ := jsonMarshal(c)
	rec.Case(val.HashBytes(b), nt, cls...)
	if nt && rec.WantSample() && len(b) < 2500 {
		rec.Sample(map[string]any{"selector": c.S.String(), "root": c.G.Root.String(), "blocks": len(c.G.Blocks), "visits": len(want.Visits), "loads": len(want.Loads)})
	}
	return nil
}

var c07Part = evid.Part[C07Case]{
	Prop: "C07", Name: "walk", Quick: 4000, Thorough: 1600000,
	Rule:  "selector AST (all clause kinds, nested ≤5, constraints of DESIGN Appendix A) × block graph (≤5 blocks, shared/repeated links, some links addressing a block's bytes under the raw codec: same multihash, other CID), compiled from its spec and through the builder package, WalkAdv and WalkMatching; non-trivial = ≥3 visits and (≥2 clause kinds, or a recursive edge actually followed, or a link crossed); distinct by (graph, selector)",
	Gen:   func(t *rapid.T) C07Case { return genGraphSelOpt(t, rapid.IntRange(1, 5).Draw(t, "seldepth"), true) },
	Check: c07Check,
}.Reg()

func TestC07_Walk(t *testing.T) { c07Part.Run(t) }
