package checks

import (
	"errors"
	"fmt"
	"testing"

	"github.com/ipld/go-ipld-prime/datamodel"
	"github.com/ipld/go-ipld-prime/node/basicnode"
	"pgregory.net/rapid"

	"verif/evid"
	"verif/nodes"
	"verif/val"
)

// C11, "the builders and assemblers involved": the basicnode container assemblers drop their pointer to
// the node under construction when they are finished (the mechanism the property names), so that a
// handle somebody kept cannot reach the finished node. This part keeps EVERY handle the construction of
// a basicnode map / list handed out — map and list assemblers at every depth, key, value and element
// assemblers, including key assemblers that just refused a repeated key — and calls them after Build.
// Such calls may fail or panic (they are outside the builder contract); what they must not do is change
// what the finished node reads as. The root builder itself is not called again without Reset: "Build, then
// assign again" is the one misuse the scalar builders do not guard and the property does not name.

type C11StaleCase struct {
	V     val.V  `json:"v"`
	Proto int    `json:"proto"`
	Prog  []byte `json:"prog"`
	Poke  []byte `json:"poke"`
}

type staleRec struct {
	mas     []datamodel.MapAssembler
	las     []datamodel.ListAssembler
	nas     []datamodel.NodeAssembler
	p       *nodes.Prog
	repeats int
	lastRep int // maps whose last key operation was a refused repeat made through a key assembler
}

func (s *staleRec) repeat(ma datamodel.MapAssembler, k string) (viaKey bool, err error) {
	var e error
	switch s.p.Next(3) {
	case 0:
		_, e = ma.AssembleEntry(k)
	case 1:
		ka := ma.AssembleKey()
		s.nas = append(s.nas, ka)
		e, viaKey = ka.AssignString(k), true
	default:
		ka := ma.AssembleKey()
		s.nas = append(s.nas, ka)
		e, viaKey = ka.AssignNode(basicnode.NewString(k)), true
	}
	var rk datamodel.ErrRepeatedMapKey
	if e == nil || !errors.As(e, &rk) {
		return viaKey, fmt.Errorf("repeated key %q: want ErrRepeatedMapKey, got %v", k, e)
	}
	s.repeats++
	return viaKey, nil
}

func (s *staleRec) assemble(na datamodel.NodeAssembler, v val.V, depth int) error {
	switch v.K {
	case val.List:
		la, err := na.BeginList(int64(len(v.Items)))
		if err != nil {
			return err
		}
		s.las = append(s.las, la)
		for _, it := range v.Items {
			ea := la.AssembleValue()
			s.nas = append(s.nas, ea)
			if err := s.assemble(ea, it, depth+1); err != nil {
				return err
			}
		}
		return la.Finish()
	case val.Map:
		ma, err := na.BeginMap(int64(len(v.Ents)))
		if err != nil {
			return err
		}
		s.mas = append(s.mas, ma)
		last := false
		for i, e := range v.Ents {
			var va datamodel.NodeAssembler
			switch s.p.Next(3) {
			case 0:
				va, err = ma.AssembleEntry(e.K)
				if err != nil {
					return err
				}
			case 1:
				ka := ma.AssembleKey()
				s.nas = append(s.nas, ka)
				if err := ka.AssignString(e.K); err != nil {
					return err
				}
				va = ma.AssembleValue()
			default:
				ka := ma.AssembleKey()
				s.nas = append(s.nas, ka)
				if err := ka.AssignNode(basicnode.NewString(e.K)); err != nil {
					return err
				}
				va = ma.AssembleValue()
			}
			s.nas = append(s.nas, va)
			if err := s.assemble(va, e.V, depth+1); err != nil {
				return err
			}
			last = false
			if s.p.Next(3) == 0 {
				viaKey, err := s.repeat(ma, v.Ents[s.p.Next(i+1)].K)
				if err != nil {
					return err
				}
				last = viaKey
			}
		}
		if last {
			s.lastRep++
		}
		return ma.Finish()
	}
	return nodes.Assemble(na, v, nil, depth)
}

func quietly(f func()) (panicked bool) {
	defer func() {
		if r := recover(); r != nil {
			panicked = true
		}
	}()
	f()
	return false
}

func c11StaleCheck(c C11StaleCase, rec *evid.Rec) error {
	var np datamodel.NodePrototype = basicnode.Prototype.Any
	if c.Proto == 1 {
		np = basicnode.Prototype.Map
		if c.V.K == val.List {
			np = basicnode.Prototype.List
		}
	}
	s := &staleRec{p: nodes.NewProg(c.Prog)}
	nb := np.NewBuilder()
	if err := s.assemble(nb, c.V, 0); err != nil {
		return fmt.Errorf("building: %w", err)
	}
	n := nb.Build()
	want, err := nodes.Plain.Read(n)
	if err != nil {
		return fmt.Errorf("first read: %w", err)
	}
	if !val.Equal(want, c.V, val.Ordered) {
		return fmt.Errorf("built node reads as %s, assembled %s", want, c.V)
	}
	pk := nodes.NewProg(c.Poke)
	fresh := 0
	key := func() string { fresh++; return fmt.Sprintf("zz-stale-%d", fresh) }
	pokes, panics := 0, 0
	pokeNA := func(na datamodel.NodeAssembler) {
		switch pk.Next(8) {
		case 0:
			na.AssignString(key())
		case 1:
			na.AssignInt(7)
		case 2:
			na.AssignNull()
		case 3:
			if ma, err := na.BeginMap(1); err == nil {
				if va, err := ma.AssembleEntry(key()); err == nil {
					va.AssignInt(1)
				}
				ma.Finish()
			}
		case 4:
			if la, err := na.BeginList(1); err == nil {
				la.AssembleValue().AssignInt(1)
				la.Finish()
			}
		case 5:
			na.AssignNode(basicnode.NewString(key()))
		case 6:
			na.AssignBytes([]byte("stale"))
		default:
			na.AssignBool(true)
		}
	}
	rounds := 1 + pk.Next(3)
	total := len(s.mas) + len(s.las) + len(s.nas)
	for r := 0; r < rounds && total > 0; r++ {
		for j := 0; j < total; j++ {
			// a drawn handle each time, so that calls on different handles of one container interleave
			h := pk.Next(total)
			pokes++
			var what string
			p := quietly(func() {
				switch {
				case h < len(s.mas):
					ma := s.mas[h]
					switch pk.Next(4) {
					case 0:
						what = "map.AssembleKey"
						pokeNA(ma.AssembleKey())
					case 1:
						what = "map.AssembleValue"
						pokeNA(ma.AssembleValue())
					case 2:
						what = "map.AssembleEntry"
						if va, err := ma.AssembleEntry(key()); err == nil {
							pokeNA(va)
						}
					default:
						what = "map.Finish"
						ma.Finish()
					}
				case h < len(s.mas)+len(s.las):
					la := s.las[h-len(s.mas)]
					if pk.Next(2) == 0 {
						what = "list.AssembleValue"
						pokeNA(la.AssembleValue())
					} else {
						what = "list.Finish"
						la.Finish()
					}
				default:
					what = "kept key/value/element assembler"
					pokeNA(s.nas[h-len(s.mas)-len(s.las)])
				}
			})
			if p {
				panics++
			}
			got, err := nodes.Plain.Read(n)
			if err != nil {
				return fmt.Errorf("after a call on a kept handle (%s, call %d): the finished node no longer reads: %w", what, pokes, err)
			}
			if !val.Equal(got, want, val.Ordered) {
				return fmt.Errorf("after a call on a kept handle (%s, call %d): the finished node changed from %s to %s", what, pokes, want, got)
			}
		}
	}
	b, _ := jsonMarshal(c)
	nt := total >= 3 && pokes >= 3
	classes := []string{fmt.Sprintf("proto:%d", c.Proto), fmt.Sprintf("repeats:%d", min(s.repeats, 3))}
	if s.lastRep > 0 {
		classes = append(classes, "last-key-op-refused")
	}
	if panics > 0 {
		classes = append(classes, "calls-that-panicked")
	}
	rec.Case(val.HashBytes(b), nt, classes...)
	if nt && rec.WantSample() && len(b) < 2000 {
		rec.Sample(c)
	}
	return nil
}

var c11StalePart = evid.Part[C11StaleCase]{
	Prop: "C11", Name: "kepthandles", Quick: 1500, Thorough: 300000,
	Rule: "a basicnode map / list (Prototype.Any, .Map, .List) is assembled while every assembler handle handed out is kept (map / list assemblers at every depth, key / value / element assemblers), with refused repeated keys injected through AssembleEntry and through key assemblers (also as the last key operation before Finish); after Build 1..3 rounds of drawn calls on drawn kept handles (assign, begin, assemble, finish; panics and errors tolerated), the node re-read after every call and compared with its first read; non-trivial = ≥3 handles kept and ≥3 calls; distinct by case",
	Gen: func(t *rapid.T) C11StaleCase {
		p := val.Profile{MaxDepth: 3, MaxWidth: 4, Float: true, Bytes: true, Links: true, Null: true}
		var v val.V
		if rapid.Bool().Draw(t, "maproot") {
			n := rapid.IntRange(1, 5).Draw(t, "n")
			seen := map[string]bool{}
			for i := 0; i < n; i++ {
				k := val.DrawText(t, "k", false, 4)
				if seen[k] {
					continue
				}
				seen[k] = true
				v.Ents = append(v.Ents, val.Ent{K: k, V: val.DrawV(t, &p, "ev")})
			}
			v.K = val.Map
		} else {
			n := rapid.IntRange(1, 5).Draw(t, "n")
			v.K = val.List
			for i := 0; i < n; i++ {
				v.Items = append(v.Items, val.DrawV(t, &p, "iv"))
			}
		}
		return C11StaleCase{V: v, Proto: rapid.IntRange(0, 1).Draw(t, "proto"),
			Prog: rapid.SliceOfN(rapid.Byte(), 0, 24).Draw(t, "prog"), Poke: rapid.SliceOfN(rapid.Byte(), 0, 48).Draw(t, "poke")}
	},
	Check: c11StaleCheck,
}.Reg()

func TestC11_KeptHandles(t *testing.T) { c11StalePart.Run(t) }
