package refcbor

import (
	"encoding/binary"
	"math"

	"verif/val"
)

// Op is one deliberate departure from canonical form, applied to the At-th item of the
// value in pre-order (keys are items too). Arg selects a variant.
type Op struct {
	At   int    `json:"at"`
	Kind string `json:"kind"`
	Arg  int    `json:"arg"`
}

var OpKinds = []string{"longhead", "indefinite", "tag", "narrowfloat", "floatspecial", "undefined", "simple",
	"dupkey", "swapkeys", "nonstringkey", "ciddamage", "nintboundary", "break", "countoff"}

var looseTags = []uint64{42, 0, 1, 2, 3, 24, 32, 55799, 43, 41}

// EncodeLoose encodes v (finite floats) canonically except for the given ops.
func EncodeLoose(v val.V, ops []Op) []byte {
	e := &looseEnc{ops: map[int][]Op{}}
	for _, o := range ops {
		e.ops[o.At] = append(e.ops[o.At], o)
	}
	e.item(v, false)
	return e.b
}

// CountItems is the number of pre-order positions EncodeLoose numbers in v.
func CountItems(v val.V) int {
	n := 1
	for _, it := range v.Items {
		n += CountItems(it)
	}
	for _, e := range v.Ents {
		n += 1 + CountItems(e.V)
	}
	return n
}

type looseEnc struct {
	b   []byte
	n   int
	ops map[int][]Op
}

func headForm(b []byte, major byte, arg uint64, extra int) []byte {
	// minimal form index: 0 immediate, 1..4 = 1,2,4,8 bytes
	form := 0
	switch {
	case arg < 24:
		form = 0
	case arg <= 0xff:
		form = 1
	case arg <= 0xffff:
		form = 2
	case arg <= 0xffffffff:
		form = 3
	default:
		form = 4
	}
	form += extra
	if form > 4 {
		form = 4
	}
	m := major << 5
	switch form {
	case 0:
		return append(b, m|byte(arg))
	case 1:
		return append(b, m|24, byte(arg))
	case 2:
		return append(b, m|25, byte(arg>>8), byte(arg))
	case 3:
		return append(b, m|26, byte(arg>>24), byte(arg>>16), byte(arg>>8), byte(arg))
	default:
		var x [8]byte
		binary.BigEndian.PutUint64(x[:], arg)
		b = append(b, m|27)
		return append(b, x[:]...)
	}
}

func (e *looseEnc) item(v val.V, isKey bool) {
	idx := e.n
	e.n++
	ops := e.ops[idx]
	extra := 0
	indef := false
	var o Op
	has := func(kind string) bool {
		for _, x := range ops {
			if x.Kind == kind {
				o = x
				return true
			}
		}
		return false
	}
	if has("tag") {
		t := looseTags[o.Arg%len(looseTags)]
		switch (o.Arg / len(looseTags)) % 3 {
		case 0:
			e.b = headForm(e.b, 6, t, 0)
		case 1: // non-minimal tag head
			e.b = headForm(e.b, 6, t, 1)
		default: // stacked
			e.b = headForm(e.b, 6, 42, 0)
			e.b = headForm(e.b, 6, t, 0)
		}
	}
	if has("break") {
		e.b = append(e.b, 0xff)
	}
	if has("longhead") {
		extra = 1 + o.Arg%3
	}
	if has("indefinite") {
		indef = true
	}
	if has("simple") {
		sv := []byte{0xe0, 0xe1, 0xf0, 0xf3, 0xf8, 0xfc, 0xfd, 0xfe}[o.Arg%8]
		e.b = append(e.b, sv)
		if sv == 0xf8 {
			e.b = append(e.b, []byte{0x00, 0x14, 0x18, 0x20, 0xff}[(o.Arg/8)%5])
		}
		return
	}
	if has("floatspecial") {
		sp := []float64{math.NaN(), math.Inf(1), math.Inf(-1)}[o.Arg%3]
		switch (o.Arg / 3) % 3 {
		case 0:
			e.b = append(e.b, 0xfb)
			e.b = binary.BigEndian.AppendUint64(e.b, math.Float64bits(sp))
		case 1:
			e.b = append(e.b, 0xfa)
			e.b = binary.BigEndian.AppendUint32(e.b, math.Float32bits(float32(sp)))
		default:
			h := []uint16{0x7e00, 0x7c00, 0xfc00}[o.Arg%3]
			e.b = append(e.b, 0xf9, byte(h>>8), byte(h))
		}
		return
	}
	if has("nintboundary") {
		e.b = append(e.b, 0x3b)
		u := []uint64{math.MaxInt64, 1 << 63, math.MaxUint64, 1<<63 + 1, math.MaxInt64 - 1}[o.Arg%5]
		e.b = binary.BigEndian.AppendUint64(e.b, u)
		return
	}
	switch v.K {
	case val.Null:
		if has("undefined") {
			e.b = append(e.b, 0xf7)
		} else {
			e.b = append(e.b, 0xf6)
		}
	case val.Bool:
		if v.B {
			e.b = append(e.b, 0xf5)
		} else {
			e.b = append(e.b, 0xf4)
		}
	case val.Int:
		if v.I >= 0 {
			e.b = headForm(e.b, 0, uint64(v.I), extra)
		} else {
			e.b = headForm(e.b, 1, uint64(-1-v.I), extra)
		}
	case val.Uint:
		e.b = headForm(e.b, 0, v.U, extra)
	case val.Float:
		if has("narrowfloat") {
			if o.Arg%2 == 0 {
				e.b = append(e.b, 0xfa)
				e.b = binary.BigEndian.AppendUint32(e.b, math.Float32bits(float32(v.F)))
				return
			}
			if h, ok := FloatToHalfExact(v.F); ok {
				e.b = append(e.b, 0xf9, byte(h>>8), byte(h))
				return
			}
			h := uint16(o.Arg * 2654435761 >> 7)
			e.b = append(e.b, 0xf9, byte(h>>8), byte(h))
			return
		}
		e.b = append(e.b, 0xfb)
		e.b = binary.BigEndian.AppendUint64(e.b, math.Float64bits(v.F))
	case val.String, val.Bytes:
		major := byte(3)
		if v.K == val.Bytes {
			major = 2
		}
		if indef {
			e.b = append(e.b, major<<5|31)
			// one or two chunks
			cut := 0
			if len(v.S) > 1 {
				cut = len(v.S) / 2
			}
			e.b = headForm(e.b, major, uint64(cut), 0)
			e.b = append(e.b, v.S[:cut]...)
			e.b = headForm(e.b, major, uint64(len(v.S)-cut), 0)
			e.b = append(e.b, v.S[cut:]...)
			e.b = append(e.b, 0xff)
			return
		}
		e.b = headForm(e.b, major, uint64(len(v.S)), extra)
		e.b = append(e.b, v.S...)
	case val.Link:
		if !has("tag") { // a tag op replaces the link tag position; otherwise emit tag 42
			e.b = append(e.b, 0xd8, 0x2a)
		}
		payload := append([]byte{0}, v.S...)
		if has("ciddamage") {
			switch o.Arg % 6 {
			case 0: // drop the multibase prefix
				payload = []byte(v.S)
			case 1: // truncate
				payload = payload[:len(payload)/2]
			case 2: // bad version
				if len(payload) > 1 {
					payload[1] = 0x05
				}
			case 3: // wrong prefix
				payload[0] = 0x01
			case 4: // empty
				payload = []byte{}
			default: // trailing garbage inside the CID
				payload = append(payload, 0x00, 0x01)
			}
		}
		if o.Kind == "ciddamage" && o.Arg%7 == 6 {
			// the tagged item is a text string instead of bytes
			e.b = headForm(e.b, 3, uint64(len(payload)), extra)
		} else {
			e.b = headForm(e.b, 2, uint64(len(payload)), extra)
		}
		e.b = append(e.b, payload...)
	case val.List:
		n := uint64(len(v.Items))
		if has("countoff") {
			if o.Arg%2 == 0 {
				n++
			} else if n > 0 {
				n--
			}
		}
		if indef {
			e.b = append(e.b, 0x9f)
		} else {
			e.b = headForm(e.b, 4, n, extra)
		}
		for _, it := range v.Items {
			e.item(it, false)
		}
		if indef {
			e.b = append(e.b, 0xff)
		}
	case val.Map:
		ents := append([]val.Ent{}, v.SortKeys(val.LessLenFirst).Ents...)
		if has("swapkeys") && len(ents) >= 2 {
			i := o.Arg % len(ents)
			j := (o.Arg/len(ents) + i + 1) % len(ents)
			ents[i], ents[j] = ents[j], ents[i]
		}
		if has("dupkey") && len(ents) >= 1 {
			i := o.Arg % len(ents)
			d := ents[i]
			if (o.Arg/len(ents))%2 == 1 {
				d.V = val.MkInt(int64(o.Arg))
			}
			pos := (o.Arg / 7) % (len(ents) + 1)
			ents = append(ents[:pos], append([]val.Ent{d}, ents[pos:]...)...)
		}
		n := uint64(len(ents))
		if has("countoff") {
			if o.Arg%2 == 0 {
				n++
			} else if n > 0 {
				n--
			}
		}
		if indef {
			e.b = append(e.b, 0xbf)
		} else {
			e.b = headForm(e.b, 5, n, extra)
		}
		nsk := -1
		if has("nonstringkey") && len(ents) > 0 {
			nsk = o.Arg % len(ents)
		}
		for i, en := range ents {
			if i == nsk {
				e.n++
				switch (o.Arg / len(ents)) % 4 {
				case 0:
					e.b = headForm(e.b, 0, uint64(len(en.K)), 0)
				case 1:
					e.b = headForm(e.b, 2, uint64(len(en.K)), 0)
					e.b = append(e.b, en.K...)
				case 2:
					e.b = append(e.b, 0xf6)
				default:
					e.b = append(e.b, 0x80)
				}
			} else {
				e.item(val.MkString(en.K), true)
			}
			e.item(en.V, false)
		}
		if indef {
			e.b = append(e.b, 0xff)
		}
	}
}

// ItemKinds lists the kind at every pre-order position EncodeLoose numbers (map keys, which
// are encoded from the canonically sorted map, appear as String).
func ItemKinds(v val.V) []val.Kind {
	var out []val.Kind
	var rec func(v val.V)
	rec = func(v val.V) {
		out = append(out, v.K)
		for _, it := range v.Items {
			rec(it)
		}
		if v.K == val.Map {
			for _, e := range v.SortKeys(val.LessLenFirst).Ents {
				out = append(out, val.String)
				rec(e.V)
			}
		}
	}
	rec(v)
	return out
}

// Applicable says whether op kind makes a difference on an item of kind k.
func Applicable(op string, k val.Kind) bool {
	switch op {
	case "dupkey", "swapkeys", "nonstringkey":
		return k == val.Map
	case "countoff":
		return k == val.Map || k == val.List
	case "ciddamage":
		return k == val.Link
	case "narrowfloat":
		return k == val.Float
	case "undefined":
		return k == val.Null
	case "indefinite":
		return k == val.Map || k == val.List || k == val.String || k == val.Bytes
	case "longhead":
		return k != val.Null && k != val.Bool && k != val.Float
	}
	return true
}
