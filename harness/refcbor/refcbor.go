// Package refcbor is an independent reference implementation of canonical DAG-CBOR
// encoding and of strict DAG-CBOR decoding over abstract values. Written from RFC 8949 and
// the DAG-CBOR specification; it shares no code with go-ipld-prime or refmt.
package refcbor

import (
	"encoding/binary"
	"fmt"
	"math"

	"verif/val"
)

func head(b []byte, major byte, arg uint64) []byte {
	m := major << 5
	switch {
	case arg < 24:
		return append(b, m|byte(arg))
	case arg <= 0xff:
		return append(b, m|24, byte(arg))
	case arg <= 0xffff:
		return append(b, m|25, byte(arg>>8), byte(arg))
	case arg <= 0xffffffff:
		return append(b, m|26, byte(arg>>24), byte(arg>>16), byte(arg>>8), byte(arg))
	default:
		var x [8]byte
		binary.BigEndian.PutUint64(x[:], arg)
		b = append(b, m|27)
		return append(b, x[:]...)
	}
}

// Encode gives the canonical DAG-CBOR bytes of v. Floats must be finite.
func Encode(v val.V) ([]byte, error) { return encode(nil, v, true) }

// EncodeUnsorted is the same encoding with map entries kept in their given order (what
// the plain "cbor" codec, which does not sort, is expected to emit).
func EncodeUnsorted(v val.V) ([]byte, error) { return encode(nil, v, false) }

func encode(b []byte, v val.V, sorted bool) ([]byte, error) {
	switch v.K {
	case val.Null:
		return append(b, 0xf6), nil
	case val.Bool:
		if v.B {
			return append(b, 0xf5), nil
		}
		return append(b, 0xf4), nil
	case val.Int:
		if v.I >= 0 {
			return head(b, 0, uint64(v.I)), nil
		}
		return head(b, 1, uint64(-1-v.I)), nil
	case val.Uint:
		return head(b, 0, v.U), nil
	case val.Float:
		if math.IsNaN(v.F) || math.IsInf(v.F, 0) {
			return nil, fmt.Errorf("non-finite float")
		}
		var x [8]byte
		binary.BigEndian.PutUint64(x[:], math.Float64bits(v.F))
		b = append(b, 0xfb)
		return append(b, x[:]...), nil
	case val.String:
		b = head(b, 3, uint64(len(v.S)))
		return append(b, v.S...), nil
	case val.Bytes:
		b = head(b, 2, uint64(len(v.S)))
		return append(b, v.S...), nil
	case val.Link:
		b = append(b, 0xd8, 0x2a)
		b = head(b, 2, uint64(len(v.S)+1))
		b = append(b, 0x00)
		return append(b, v.S...), nil
	case val.List:
		b = head(b, 4, uint64(len(v.Items)))
		var err error
		for _, it := range v.Items {
			if b, err = encode(b, it, sorted); err != nil {
				return nil, err
			}
		}
		return b, nil
	case val.Map:
		s := v
		if sorted {
			s = v.SortKeys(val.LessLenFirst)
		}
		b = head(b, 5, uint64(len(s.Ents)))
		var err error
		for _, e := range s.Ents {
			b = head(b, 3, uint64(len(e.K)))
			b = append(b, e.K...)
			// children are sorted by their own encode call
			if b, err = encode(b, e.V, sorted); err != nil {
				return nil, err
			}
		}
		return b, nil
	}
	return nil, fmt.Errorf("kind %v not encodable", v.K)
}

// Reject is the reason category of a rejection.
type Reject string

const (
	RjEOF        Reject = "eof"
	RjBadInitial Reject = "badinitial"
	RjNonMinimal Reject = "nonminimal"
	RjIndefinite Reject = "indefinite"
	RjTag        Reject = "tag"
	RjCid        Reject = "cid"
	RjDupKey     Reject = "dupkey"
	RjKeyKind    Reject = "nonstringkey"
	RjNintRange  Reject = "nint-range"
	RjSimple     Reject = "simple"
	RjFloat      Reject = "float-special"
	RjTrailing   Reject = "trailing"
	RjReserved   Reject = "reserved-ai"
	RjDepth      Reject = "depth"
)

func (r Reject) Error() string { return "refcbor reject: " + string(r) }

// Opts are the decoding modes of the reference.
type Opts struct {
	Relaxed    bool // non-minimal heads, NaN/Inf and duplicate keys are not rejected
	NoLinks    bool // tag 42 is rejected (the plain cbor codec)
	CidOK      func(cidBytes []byte) bool
	AllowTrail bool // accept (and report) trailing bytes: DontParseBeyondEnd
	MaxDepth   int
}

type dec struct {
	b []byte
	o Opts
}

// Decode decodes exactly one item. Maps keep the order of the bytes. When the relaxed
// option lets duplicate keys through, DupKeys reports that (the value then keeps all entries).
func Decode(b []byte, o Opts) (v val.V, rest []byte, dup bool, err error) {
	d := &dec{b: b, o: o}
	if d.o.MaxDepth == 0 {
		d.o.MaxDepth = 512
	}
	var dk bool
	v, err = d.item(0, &dk)
	if err != nil {
		return val.V{}, nil, false, err
	}
	if len(d.b) != 0 && !o.AllowTrail {
		return val.V{}, nil, false, RjTrailing
	}
	return v, d.b, dk, nil
}

// readHead reads an initial byte and its argument.
func (d *dec) readHead() (major byte, ai byte, arg uint64, err error) {
	if len(d.b) == 0 {
		return 0, 0, 0, RjEOF
	}
	ib := d.b[0]
	major, ai = ib>>5, ib&0x1f
	d.b = d.b[1:]
	switch {
	case ai < 24:
		return major, ai, uint64(ai), nil
	case ai <= 27:
		n := 1 << (ai - 24)
		if len(d.b) < n {
			return 0, 0, 0, RjEOF
		}
		for i := 0; i < n; i++ {
			arg = arg<<8 | uint64(d.b[i])
		}
		d.b = d.b[n:]
		return major, ai, arg, nil
	case ai == 31:
		return major, ai, 0, nil
	default:
		return major, ai, 0, RjReserved
	}
}

func minimal(ai byte, arg uint64) bool {
	switch ai {
	case 24:
		return arg >= 24
	case 25:
		return arg > 0xff
	case 26:
		return arg > 0xffff
	case 27:
		return arg > 0xffffffff
	}
	return true
}

func (d *dec) take(n uint64) (string, error) {
	if uint64(len(d.b)) < n {
		return "", RjEOF
	}
	s := string(d.b[:n])
	d.b = d.b[n:]
	return s, nil
}

func (d *dec) item(depth int, dup *bool) (val.V, error) {
	major, ai, arg, err := d.readHead()
	if err != nil {
		return val.V{}, err
	}
	if major != 7 {
		if ai == 31 {
			if major == 0 || major == 1 || major == 6 {
				return val.V{}, RjBadInitial
			}
			return val.V{}, RjIndefinite
		}
		if !d.o.Relaxed && !minimal(ai, arg) {
			return val.V{}, RjNonMinimal
		}
	}
	switch major {
	case 0:
		return val.MkUint(arg), nil
	case 1:
		if arg > math.MaxInt64 {
			return val.V{}, RjNintRange
		}
		return val.MkInt(-1 - int64(arg)), nil
	case 2:
		s, err := d.take(arg)
		if err != nil {
			return val.V{}, err
		}
		return val.V{K: val.Bytes, S: s}, nil
	case 3:
		s, err := d.take(arg)
		if err != nil {
			return val.V{}, err
		}
		return val.MkString(s), nil
	case 4:
		if depth+1 > d.o.MaxDepth {
			return val.V{}, RjDepth
		}
		out := val.V{K: val.List, Items: []val.V{}}
		for i := uint64(0); i < arg; i++ {
			it, err := d.item(depth+1, dup)
			if err != nil {
				return val.V{}, err
			}
			out.Items = append(out.Items, it)
		}
		return out, nil
	case 5:
		if depth+1 > d.o.MaxDepth {
			return val.V{}, RjDepth
		}
		out := val.V{K: val.Map, Ents: []val.Ent{}}
		seen := map[string]bool{}
		for i := uint64(0); i < arg; i++ {
			// key: must be a text string (definite, minimal head)
			if len(d.b) == 0 {
				return val.V{}, RjEOF
			}
			if d.b[0]>>5 != 3 {
				// still classify plain truncation / bad heads first
				return val.V{}, RjKeyKind
			}
			kv, err := d.item(depth+1, dup)
			if err != nil {
				return val.V{}, err
			}
			if seen[kv.S] {
				if !d.o.Relaxed {
					return val.V{}, RjDupKey
				}
				*dup = true
			}
			seen[kv.S] = true
			vv, err := d.item(depth+1, dup)
			if err != nil {
				return val.V{}, err
			}
			out.Ents = append(out.Ents, val.Ent{K: kv.S, V: vv})
		}
		return out, nil
	case 6:
		if arg != 42 || d.o.NoLinks {
			return val.V{}, RjTag
		}
		// (a non-minimal tag head is rejected above in strict mode; relaxed mode tolerates
		// non-minimal heads of every kind, the tag head included)
		if len(d.b) == 0 {
			return val.V{}, RjEOF
		}
		if d.b[0]>>5 != 2 {
			return val.V{}, RjTag
		}
		bv, err := d.item(depth, dup)
		if err != nil {
			return val.V{}, err
		}
		if len(bv.S) < 1 || bv.S[0] != 0 {
			return val.V{}, RjCid
		}
		c := []byte(bv.S[1:])
		if d.o.CidOK != nil && !d.o.CidOK(c) {
			return val.V{}, RjCid
		}
		return val.MkLink(string(c)), nil
	case 7:
		switch ai {
		case 20:
			return val.MkBool(false), nil
		case 21:
			return val.MkBool(true), nil
		case 22, 23:
			return val.MkNull(), nil
		case 25:
			return d.float(halfToFloat(uint16(arg)))
		case 26:
			return d.float(float64(math.Float32frombits(uint32(arg))))
		case 27:
			return d.float(math.Float64frombits(arg))
		case 31:
			return val.V{}, RjBadInitial // a "break" outside an indefinite item
		default:
			return val.V{}, RjSimple
		}
	}
	return val.V{}, RjBadInitial
}

func (d *dec) float(f float64) (val.V, error) {
	if !d.o.Relaxed && (math.IsNaN(f) || math.IsInf(f, 0)) {
		return val.V{}, RjFloat
	}
	return val.MkFloat(f), nil
}

func halfToFloat(h uint16) float64 {
	sign := (h >> 15) & 1
	exp := (h >> 10) & 0x1f
	frac := h & 0x3ff
	var f float64
	switch exp {
	case 0:
		f = math.Ldexp(float64(frac), -24)
	case 31:
		if frac == 0 {
			f = math.Inf(1)
		} else {
			f = math.NaN()
		}
	default:
		f = math.Ldexp(float64(frac)+1024, int(exp)-25)
	}
	if sign == 1 {
		f = -f
	}
	return f
}

// FloatToHalfExact returns the half-precision bits of f when f is exactly representable.
func FloatToHalfExact(f float64) (uint16, bool) {
	for h := 0; h < 1<<16; h++ {
		g := halfToFloat(uint16(h))
		if math.Float64bits(g) == math.Float64bits(f) {
			return uint16(h), true
		}
	}
	return 0, false
}
