// Package gobind builds Go types (with reflect) that bindnode can bind to a generated schema,
// in the variations the binding documents (narrow and unsigned ints, float32, cid.Cid vs
// cidlink.Link vs datamodel.Link, pointers for optional / nullable / both, slices as nilable
// optionals, struct{Keys;Values} ordered maps, union structs of pointers, string- and
// int-backed enums), converts typed values into Go values of those types, and reads Go
// values back with an independent reflection walk (GoView). It shares no code with bindnode.
package gobind

import (
	"fmt"
	"math"
	"reflect"
	"unicode"
	"unicode/utf8"

	"github.com/ipfs/go-cid"
	"github.com/ipld/go-ipld-prime/datamodel"
	cidlink "github.com/ipld/go-ipld-prime/linking/cid"

	"verif/nodes"
	"verif/tschema"
	"verif/val"
)

// Choices drive the Go-type variation per type name / field (plain data for replay).
type Choices struct {
	C []byte `json:"c"`
}

func (c Choices) at(key string, n int) int {
	if len(c.C) == 0 || n <= 1 {
		return 0
	}
	h := 0
	for i := 0; i < len(key); i++ {
		h = h*31 + int(key[i])
	}
	if h < 0 {
		h = -h
	}
	return int(c.C[h%len(c.C)]) % n
}

var intTypes = []reflect.Type{reflect.TypeOf(int64(0)), reflect.TypeOf(int(0)), reflect.TypeOf(int8(0)), reflect.TypeOf(int16(0)), reflect.TypeOf(int32(0)),
	reflect.TypeOf(uint8(0)), reflect.TypeOf(uint16(0)), reflect.TypeOf(uint32(0)), reflect.TypeOf(uint64(0)), reflect.TypeOf(uint(0))}

var (
	tCid     = reflect.TypeOf(cid.Cid{})
	tCidLink = reflect.TypeOf(cidlink.Link{})
	tLink    = reflect.TypeOf((*datamodel.Link)(nil)).Elem()
	tNode    = reflect.TypeOf((*datamodel.Node)(nil)).Elem()
)

func title(s string) string {
	r, n := utf8.DecodeRuneInString(s)
	return string(unicode.ToUpper(r)) + s[n:]
}

// Binder holds the Go type chosen for every schema type.
type Binder struct {
	S     *tschema.Schema
	Ch    Choices
	types map[string]reflect.Type
}

func New(s *tschema.Schema, ch Choices) *Binder {
	return &Binder{S: s, Ch: ch, types: map[string]reflect.Type{}}
}

// GoType returns the Go type bound to the schema type (use is the field / position that refers
// to it, so that the same built-in can be bound differently in different places).
func (b *Binder) GoType(typ, use string) reflect.Type {
	switch typ {
	case "Bool":
		return reflect.TypeOf(false)
	case "Int":
		return intTypes[b.Ch.at("int:"+use, len(intTypes))]
	case "Float":
		if b.Ch.at("float:"+use, 4) == 0 {
			return reflect.TypeOf(float32(0))
		}
		return reflect.TypeOf(float64(0))
	case "String":
		return reflect.TypeOf("")
	case "Bytes":
		return reflect.TypeOf([]byte{})
	case "Link":
		return []reflect.Type{tCid, tCidLink, tLink}[b.Ch.at("link:"+use, 3)]
	case "Any":
		return tNode
	}
	if t, ok := b.types[typ]; ok {
		return t
	}
	ty := b.S.Type(typ)
	var t reflect.Type
	switch ty.Kind {
	case "list":
		e := b.GoType(ty.Elem, typ+".elem")
		if ty.ElemNullable {
			e = reflect.PointerTo(e)
		}
		t = reflect.SliceOf(e)
	case "map":
		e := b.GoType(ty.Elem, typ+".value")
		if ty.ElemNullable {
			e = reflect.PointerTo(e)
		}
		t = reflect.StructOf([]reflect.StructField{
			{Name: "Keys", Type: reflect.SliceOf(reflect.TypeOf(""))},
			{Name: "Values", Type: reflect.MapOf(reflect.TypeOf(""), e)},
		})
	case "struct":
		fs := make([]reflect.StructField, len(ty.Fields))
		for i, f := range ty.Fields {
			ft := b.GoType(f.Type, typ+"."+f.Name)
			switch {
			case f.Optional && f.Nullable:
				ft = reflect.PointerTo(reflect.PointerTo(ft))
			case f.Nullable:
				// likewise: a nil slice can stand for null
				if !b.nilableNullable(ty, f, ft) {
					ft = reflect.PointerTo(ft)
				}
			case f.Optional:
				// slices and the ordered-map struct... only slices are nilable without a pointer
				if !b.nilableOptional(ty, f, ft) {
					ft = reflect.PointerTo(ft)
				}
			}
			fs[i] = reflect.StructField{Name: title(f.Name), Type: ft}
		}
		t = reflect.StructOf(fs)
	case "union":
		fs := make([]reflect.StructField, len(ty.Members))
		for i, m := range ty.Members {
			fs[i] = reflect.StructField{Name: title(m.Type), Type: reflect.PointerTo(b.GoType(m.Type, typ+"."+m.Type))}
		}
		t = reflect.StructOf(fs)
	case "enum":
		if ty.Repr == "int" && b.Ch.at("enum:"+typ, 2) == 0 {
			t = reflect.TypeOf(int32(0))
		} else {
			t = reflect.TypeOf("")
		}
	}
	b.types[typ] = t
	return t
}

// nilableOptional decides whether an optional field is bound to a bare slice (nil = absent)
// instead of a pointer. Only list fields of map-represented structs: with a bare slice Go
// cannot tell "present but empty" from "absent", so Fit turns the former into the latter there.
func (b *Binder) nilableOptional(ty *tschema.TypeSpec, f tschema.FieldSpec, ft reflect.Type) bool {
	if ft.Kind() != reflect.Slice || ft.Elem().Kind() == reflect.Uint8 || ty.Repr == "tuple" || ty.Repr == "stringjoin" {
		return false
	}
	return b.Ch.at("optslice:"+ty.Name+"."+f.Name, 2) == 0
}

// nilableNullable: a nullable (not optional) list field bound to a plain slice, nil meaning null. As with
// nilableOptional an empty list and null are then one Go value, so fit() turns the empty list into null.
func (b *Binder) nilableNullable(ty *tschema.TypeSpec, f tschema.FieldSpec, ft reflect.Type) bool {
	if ft.Kind() != reflect.Slice || ft.Elem().Kind() == reflect.Uint8 || ty.Repr == "tuple" || ty.Repr == "stringjoin" {
		return false
	}
	return b.Ch.at("nullslice:"+ty.Name+"."+f.Name, 2) == 0
}

func intRange(t reflect.Type) (lo int64, hi uint64) {
	switch t.Kind() {
	case reflect.Int8:
		return math.MinInt8, math.MaxInt8
	case reflect.Int16:
		return math.MinInt16, math.MaxInt16
	case reflect.Int32:
		return math.MinInt32, math.MaxInt32
	case reflect.Int, reflect.Int64:
		return math.MinInt64, math.MaxInt64
	case reflect.Uint8:
		return 0, math.MaxUint8
	case reflect.Uint16:
		return 0, math.MaxUint16
	case reflect.Uint32:
		return 0, math.MaxUint32
	default:
		return 0, math.MaxUint64
	}
}

// Fit adjusts the typed value so that every scalar fits the Go type bound at its position
// (ints into narrow / unsigned ranges, floats to float32 precision) and returns it.
func (b *Binder) Fit(typ, use string, tv tschema.TV) tschema.TV { return b.fit(typ, use, tv, true) }

// big: values above the int64 range are allowed at this position (not directly inside a union:
// the representation node of a kinded union has no way to expose them)
func (b *Binder) fit(typ, use string, tv tschema.TV, big bool) tschema.TV {
	if tv.K == "null" || tv.K == "absent" {
		return tv
	}
	if tschema.IsBuiltin(typ) {
		gt := b.GoType(typ, use)
		switch typ {
		case "Int":
			lo, hi := intRange(gt)
			v := tv.V
			if v.K == val.Int {
				if v.I < lo || (v.I > 0 && uint64(v.I) > hi) {
					// out of the Go type's range: map onto a boundary-biased value inside it
					k := uint64(v.I) % 6
					switch k {
					case 0:
						v.I = lo
					case 1:
						v.I = lo + 1
					case 2:
						if hi > math.MaxInt64 && big {
							v = val.MkUint(hi)
						} else if hi > math.MaxInt64 {
							v.I = math.MaxInt64
						} else {
							v.I = int64(hi)
						}
					case 3:
						if hi > math.MaxInt64 && big {
							v = val.MkUint(hi - 1)
						} else if hi > math.MaxInt64 {
							v.I = math.MaxInt64 - 1
						} else {
							v.I = int64(hi) - 1
						}
					default:
						v.I = int64(uint64(v.I) % 100)
					}
				} else if big && gt.Kind() == reflect.Uint64 && v.I%11 == 3 {
					// exercise the range above int64 too
					v = val.MkUint(math.MaxUint64 - uint64(v.I))
				}
			}
			tv.V = v
		case "Float":
			if gt.Kind() == reflect.Float32 {
				f := float64(float32(tv.V.F))
				if math.IsInf(f, 0) {
					f = 1.5
				}
				tv.V = val.MkFloat(f)
			}
		}
		return tv
	}
	ty := b.S.Type(typ)
	out := tv
	out.Items = make([]tschema.TV, len(tv.Items))
	switch ty.Kind {
	case "list":
		for i, it := range tv.Items {
			out.Items[i] = b.fit(ty.Elem, typ+".elem", it, true)
		}
	case "map":
		for i, it := range tv.Items {
			out.Items[i] = b.fit(ty.Elem, typ+".value", it, true)
		}
	case "struct":
		for i, it := range tv.Items {
			f := ty.Fields[i]
			out.Items[i] = b.fit(f.Type, typ+"."+f.Name, it, true)
			if f.Optional && !f.Nullable && it.K == "list" && len(it.Items) == 0 && b.nilableOptional(ty, f, b.GoType(f.Type, typ+"."+f.Name)) {
				out.Items[i] = tschema.TV{K: "absent"}
			}
			if f.Nullable && !f.Optional && it.K == "list" && len(it.Items) == 0 && b.nilableNullable(ty, f, b.GoType(f.Type, typ+"."+f.Name)) {
				out.Items[i] = tschema.TV{K: "null"}
			}
		}
	case "union":
		m := ty.Members[tv.Member]
		out.Items[0] = b.fit(m.Type, typ+"."+m.Type, tv.Items[0], false)
	}
	return out
}

// ToGo builds a Go value of the bound type holding the typed value.
func (b *Binder) ToGo(typ, use string, tv tschema.TV) (reflect.Value, error) {
	gt := b.GoType(typ, use)
	out := reflect.New(gt).Elem()
	if err := b.fill(out, typ, use, tv); err != nil {
		return reflect.Value{}, err
	}
	return out, nil
}

func (b *Binder) fill(dst reflect.Value, typ, use string, tv tschema.TV) error {
	if tschema.IsBuiltin(typ) {
		v := tv.V
		switch typ {
		case "Bool":
			dst.SetBool(v.B)
		case "Int":
			switch dst.Kind() {
			case reflect.Int, reflect.Int8, reflect.Int16, reflect.Int32, reflect.Int64:
				dst.SetInt(v.I)
			default:
				if v.K == val.Uint {
					dst.SetUint(v.U)
				} else {
					dst.SetUint(uint64(v.I))
				}
			}
		case "Float":
			dst.SetFloat(v.F)
		case "String":
			dst.SetString(v.S)
		case "Bytes":
			dst.SetBytes([]byte(v.S))
		case "Link":
			c, err := cid.Cast([]byte(v.S))
			if err != nil {
				return err
			}
			switch dst.Type() {
			case tCid:
				dst.Set(reflect.ValueOf(c))
			case tCidLink:
				dst.Set(reflect.ValueOf(cidlink.Link{Cid: c}))
			default:
				dst.Set(reflect.ValueOf(datamodel.Link(cidlink.Link{Cid: c})))
			}
		case "Any":
			n, err := nodes.BuildDefault(v)
			if err != nil {
				return err
			}
			dst.Set(reflect.ValueOf(n))
		}
		return nil
	}
	ty := b.S.Type(typ)
	// setMaybe handles the pointer layers of nullable / optional positions
	setMaybe := func(slot reflect.Value, optional, nullable bool, it tschema.TV, etyp, euse string) error {
		if it.K == "absent" {
			return nil // zero value: nil pointer / nil slice
		}
		switch {
		case optional && nullable: // **T
			inner := reflect.New(slot.Type().Elem())
			slot.Set(inner)
			if it.K == "null" {
				return nil // outer set, inner nil
			}
			p := reflect.New(slot.Type().Elem().Elem())
			inner.Elem().Set(p)
			return b.fill(p.Elem(), etyp, euse, it)
		case nullable && slot.Kind() != reflect.Ptr: // a nilable slice used as a nullable
			if it.K == "null" {
				return nil
			}
			return b.fill(slot, etyp, euse, it)
		case nullable: // *T
			if it.K == "null" {
				return nil
			}
			p := reflect.New(slot.Type().Elem())
			slot.Set(p)
			return b.fill(p.Elem(), etyp, euse, it)
		case optional && slot.Kind() == reflect.Ptr: // *T
			p := reflect.New(slot.Type().Elem())
			slot.Set(p)
			return b.fill(p.Elem(), etyp, euse, it)
		}
		return b.fill(slot, etyp, euse, it) // plain value, or a nilable slice used as an optional
	}
	switch ty.Kind {
	case "list":
		s := reflect.MakeSlice(dst.Type(), len(tv.Items), len(tv.Items))
		for i, it := range tv.Items {
			if err := setMaybe(s.Index(i), false, ty.ElemNullable, it, ty.Elem, typ+".elem"); err != nil {
				return err
			}
		}
		dst.Set(s)
	case "map":
		keys := reflect.MakeSlice(dst.Field(0).Type(), 0, len(tv.Keys))
		vals := reflect.MakeMap(dst.Field(1).Type())
		for i, it := range tv.Items {
			keys = reflect.Append(keys, reflect.ValueOf(tv.Keys[i]))
			slot := reflect.New(dst.Field(1).Type().Elem()).Elem()
			if err := setMaybe(slot, false, ty.ElemNullable, it, ty.Elem, typ+".value"); err != nil {
				return err
			}
			vals.SetMapIndex(reflect.ValueOf(tv.Keys[i]), slot)
		}
		dst.Field(0).Set(keys)
		dst.Field(1).Set(vals)
	case "struct":
		for i, it := range tv.Items {
			f := ty.Fields[i]
			if err := setMaybe(dst.Field(i), f.Optional, f.Nullable, it, f.Type, typ+"."+f.Name); err != nil {
				return err
			}
		}
	case "union":
		m := ty.Members[tv.Member]
		p := reflect.New(dst.Field(tv.Member).Type().Elem())
		if err := b.fill(p.Elem(), m.Type, typ+"."+m.Type, tv.Items[0]); err != nil {
			return err
		}
		dst.Field(tv.Member).Set(p)
	case "enum":
		e := ty.Enum[tv.Member]
		if dst.Kind() == reflect.String {
			dst.SetString(e.Name)
		} else {
			dst.SetInt(int64(e.Int))
		}
	}
	return nil
}

// GoView reads a Go value of the bound type back as the type-level view, by an independent
// reflection walk. nil and empty slices / maps are the same data.
func (b *Binder) GoView(v reflect.Value, typ string) (val.V, error) {
	for v.Kind() == reflect.Ptr {
		if v.IsNil() {
			return val.V{}, fmt.Errorf("unexpected nil pointer at %s", typ)
		}
		v = v.Elem()
	}
	if tschema.IsBuiltin(typ) {
		switch typ {
		case "Bool":
			return val.MkBool(v.Bool()), nil
		case "Int":
			switch v.Kind() {
			case reflect.Int, reflect.Int8, reflect.Int16, reflect.Int32, reflect.Int64:
				return val.MkInt(v.Int()), nil
			default:
				return val.MkUint(v.Uint()), nil
			}
		case "Float":
			return val.MkFloat(v.Float()), nil
		case "String":
			return val.MkString(v.String()), nil
		case "Bytes":
			return val.MkBytes(v.Bytes()), nil
		case "Link":
			switch x := v.Interface().(type) {
			case cid.Cid:
				return val.MkLink(string(x.Bytes())), nil
			case cidlink.Link:
				return val.MkLink(string(x.Cid.Bytes())), nil
			case datamodel.Link:
				return val.MkLink(x.Binary()), nil
			}
			return val.V{}, fmt.Errorf("unexpected link type %s", v.Type())
		case "Any":
			n, ok := v.Interface().(datamodel.Node)
			if !ok || n == nil {
				return val.V{}, fmt.Errorf("Any holds %v", v.Interface())
			}
			return nodes.Read(n)
		}
	}
	ty := b.S.Type(typ)
	// maybe reads a position with pointer layers
	maybe := func(slot reflect.Value, optional, nullable bool, etyp string) (val.V, error) {
		if optional && nullable {
			if slot.IsNil() {
				return val.MkAbsent(), nil
			}
			slot = slot.Elem()
			if slot.IsNil() {
				return val.MkNull(), nil
			}
			return b.GoView(slot.Elem(), etyp)
		}
		if optional {
			if (slot.Kind() == reflect.Ptr || slot.Kind() == reflect.Slice) && slot.IsNil() {
				return val.MkAbsent(), nil
			}
			return b.GoView(slot, etyp)
		}
		if nullable {
			if slot.IsNil() {
				return val.MkNull(), nil
			}
			if slot.Kind() != reflect.Ptr {
				return b.GoView(slot, etyp)
			}
			return b.GoView(slot.Elem(), etyp)
		}
		return b.GoView(slot, etyp)
	}
	switch ty.Kind {
	case "list":
		out := val.V{K: val.List, Items: []val.V{}}
		for i := 0; i < v.Len(); i++ {
			x, err := maybe(v.Index(i), false, ty.ElemNullable, ty.Elem)
			if err != nil {
				return val.V{}, err
			}
			out.Items = append(out.Items, x)
		}
		return out, nil
	case "map":
		out := val.V{K: val.Map, Ents: []val.Ent{}}
		keys, vals := v.Field(0), v.Field(1)
		if keys.Len() != vals.Len() {
			return val.V{}, fmt.Errorf("ordered map has %d keys but %d values", keys.Len(), vals.Len())
		}
		for i := 0; i < keys.Len(); i++ {
			k := keys.Index(i)
			mv := vals.MapIndex(k)
			if !mv.IsValid() {
				return val.V{}, fmt.Errorf("ordered map key %q has no value", k.String())
			}
			x, err := maybe(mv, false, ty.ElemNullable, ty.Elem)
			if err != nil {
				return val.V{}, err
			}
			out.Ents = append(out.Ents, val.Ent{K: k.String(), V: x})
		}
		return out, nil
	case "struct":
		out := val.V{K: val.Map, Ents: []val.Ent{}}
		for i, f := range ty.Fields {
			x, err := maybe(v.Field(i), f.Optional, f.Nullable, f.Type)
			if err != nil {
				return val.V{}, err
			}
			out.Ents = append(out.Ents, val.Ent{K: f.Name, V: x})
		}
		return out, nil
	case "union":
		found := -1
		for i := range ty.Members {
			if !v.Field(i).IsNil() {
				if found >= 0 {
					return val.V{}, fmt.Errorf("union struct has two members set")
				}
				found = i
			}
		}
		if found < 0 {
			return val.V{}, fmt.Errorf("union struct has no member set")
		}
		x, err := b.GoView(v.Field(found).Elem(), ty.Members[found].Type)
		if err != nil {
			return val.V{}, err
		}
		return val.MkMap(val.Ent{K: ty.Members[found].Type, V: x}), nil
	case "enum":
		if v.Kind() == reflect.String {
			return val.MkString(v.String()), nil
		}
		for _, e := range ty.Enum {
			if int64(e.Int) == v.Int() {
				return val.MkString(e.Name), nil
			}
		}
		return val.V{}, fmt.Errorf("enum int %d is no member", v.Int())
	}
	return val.V{}, fmt.Errorf("bad kind")
}
