// Package typedx holds the engine-independent pieces of the typed-node checks (C08/C09/C13):
// reading both views of a typed node against reference views, feeding event trees to typed
// builders through several routes. Used by the harness tests and by the differential test
// that is dropped into freshly generated packages.
package typedx

import (
	"bytes"
	"encoding/base64"
	"encoding/json"
	"errors"
	"fmt"
	"github.com/ipld/go-ipld-prime/node/basicnode"
	"os"
	"strconv"
	"strings"

	"github.com/ipfs/go-cid"
	"github.com/ipld/go-ipld-prime/codec/dagcbor"
	"github.com/ipld/go-ipld-prime/codec/dagjson"
	"github.com/ipld/go-ipld-prime/datamodel"
	"github.com/ipld/go-ipld-prime/schema"

	"verif/evid"
	"verif/nodes"
	"verif/refcbor"
	"verif/val"
)

func ReprOf(n datamodel.Node) (datamodel.Node, error) {
	tn, ok := n.(schema.TypedNode)
	if !ok {
		return nil, fmt.Errorf("node %T is not a schema.TypedNode", n)
	}
	return tn.Representation(), nil
}

// checkViews reads both views of a typed node against the reference views.
func CheckViews(n datamodel.Node, tview, rview val.V, what string) error {
	got, err := nodes.FullTyped.Read(n)
	if err != nil {
		return fmt.Errorf("%s: type-level view inconsistent: %w", what, err)
	}
	if !val.Equal(got, tview, val.Ordered) {
		return fmt.Errorf("%s: type-level view differs: %s (got vs want)", what, val.Diff(got, tview))
	}
	var rn datamodel.Node
	if err := evid.Guard("Representation()", func() error { var e error; rn, e = ReprOf(n); return e }); err != nil {
		return fmt.Errorf("%s: %w", what, err)
	}
	rgot, err := nodes.FullRepr.Read(rn)
	if err != nil {
		return fmt.Errorf("%s: representation view inconsistent: %w", what, err)
	}
	if !val.Equal(rgot, rview, val.Ordered) {
		return fmt.Errorf("%s: representation view differs: %s (got vs want)", what, val.Diff(rgot, rview))
	}
	// reading one view does not disturb the other: the type-level view once more (a plain read), then the
	// representation once more
	again, err := (&nodes.Reader{Typed: true}).Read(n)
	if err != nil || !val.Equal(again, tview, val.Ordered) {
		return fmt.Errorf("%s: after its representation was read, the type-level view reads differently: %s (err %v)", what, val.Diff(again, tview), err)
	}
	ragain, err := nodes.Plain.Read(rn)
	if err != nil || !val.Equal(ragain, rview, val.Ordered) {
		return fmt.Errorf("%s: the representation view reads differently the second time: %s (err %v)", what, val.Diff(ragain, rview), err)
	}
	return nil
}

func StripAbsent(v val.V) val.V {
	c := v
	if v.Items != nil {
		c.Items = make([]val.V, len(v.Items))
		for i := range v.Items {
			c.Items[i] = StripAbsent(v.Items[i])
		}
	}
	if v.Ents != nil {
		c.Ents = make([]val.Ent, 0, len(v.Ents))
		for _, e := range v.Ents {
			if e.V.K == val.Absent {
				continue
			}
			c.Ents = append(c.Ents, val.Ent{K: e.K, V: StripAbsent(e.V)})
		}
	}
	return c
}

// eventsJSON renders a tree (maps may repeat keys) as DAG-JSON text; ok=false if it has floats.
func EventsJSON(v val.V) (string, bool) {
	switch v.K {
	case val.Null:
		return "null", true
	case val.Bool:
		return strconv.FormatBool(v.B), true
	case val.Int:
		return strconv.FormatInt(v.I, 10), true
	case val.String:
		if !isValidUTF8(v.S) {
			return "", false
		}
		b, _ := json.Marshal(v.S)
		return string(b), true
	case val.Bytes:
		return `{"/":{"bytes":"` + base64.RawStdEncoding.EncodeToString([]byte(v.S)) + `"}}`, true
	case val.Link:
		c, err := cid.Cast([]byte(v.S))
		if err != nil {
			return "", false
		}
		return `{"/":"` + c.String() + `"}`, true
	case val.List:
		parts := make([]string, len(v.Items))
		for i, it := range v.Items {
			s, ok := EventsJSON(it)
			if !ok {
				return "", false
			}
			parts[i] = s
		}
		return "[" + strings.Join(parts, ",") + "]", true
	case val.Map:
		if val.IsReservedShape(v) {
			return "", false
		}
		parts := make([]string, len(v.Ents))
		for i, e := range v.Ents {
			if !isValidUTF8(e.K) {
				return "", false
			}
			s, ok := EventsJSON(e.V)
			if !ok {
				return "", false
			}
			k, _ := json.Marshal(e.K)
			parts[i] = string(k) + ":" + s
		}
		return "{" + strings.Join(parts, ",") + "}", true
	}
	return "", false
}

func isValidUTF8(s string) bool {
	return strings.ToValidUTF8(s, "�") == s && !strings.Contains(s, "�")
}

// typedProto returns the prototype for the level.
func TypedProto(p schema.TypedPrototype, level int) datamodel.NodePrototype {
	if level == 1 {
		return p.Representation()
	}
	return p
}

// Feed offers the events to the builder through the chosen route and reports acceptance.
func Feed(np datamodel.NodePrototype, events val.V, via string, prog []byte) (n datamodel.Node, accepted bool, applicable bool, err error) {
	return FeedInto(np.NewBuilder(), fmt.Sprintf("%T", np), events, via, prog)
}

// FeedInto is Feed with a builder supplied by the caller (a fresh one, or one that was Reset after earlier use).
func FeedInto(nb datamodel.NodeBuilder, npName string, events val.V, via string, prog []byte) (n datamodel.Node, accepted bool, applicable bool, err error) {
	var ferr error
	switch via {
	case "direct":
		ferr = evid.Guard("assembling", func() error { return nodes.Assemble(nb, events, nodes.NewProg(prog), 0) })
	case "dagcbor", "dagcbor-relaxed":
		b, eerr := refcbor.EncodeUnsorted(events)
		if eerr != nil {
			return nil, false, false, nil
		}
		ferr = evid.Guard("dagcbor.Decode", func() error {
			return dagcbor.DecodeOptions{AllowLinks: true, RelaxedDecode: via == "dagcbor-relaxed"}.Decode(nb, bytes.NewReader(b))
		})
	case "dagjson":
		text, ok := EventsJSON(events)
		if !ok {
			return nil, false, false, nil
		}
		ferr = evid.Guard("dagjson.Decode", func() error { return dagjson.Decode(nb, strings.NewReader(text)) })
	}
	if ferr != nil {
		if os.Getenv("VERIF_STACK") != "" {
			fmt.Printf("FEED-ERROR (%s via %s): %v\n", npName, via, ferr)
		}
		if strings.HasPrefix(ferr.Error(), "PANIC") {
			return nil, false, true, ferr
		}
		return nil, false, true, nil
	}
	if gerr := evid.Guard("Build", func() error { n = nb.Build(); return nil }); gerr != nil {
		return nil, false, true, gerr
	}
	return n, true, true, nil
}

// FeedRepeating assembles the top-level map events into nb entry by entry (drawn call styles), and before entry
// `at` (1..len; len = after the last entry, so that Finish is the very next call) offers the key of an earlier
// entry once more through route style%3 (AssembleEntry, key AssignString, key AssignNode). The offer must be
// refused with a repeated-key error and everything else must go on as if it had not been made. deferredOK: the
// engine's key assembler cannot see its map, so the refusal may come from the first call on the value assembler.
func FeedRepeating(nb datamodel.NodeBuilder, events val.V, prog []byte, at, which, style int, deferredOK bool) (n datamodel.Node, err error) {
	p := nodes.NewProg(prog)
	err = evid.Guard("assembling with a repeated key", func() error {
		ma, err := nb.BeginMap(int64(len(events.Ents)))
		if err != nil {
			return fmt.Errorf("BeginMap: %w", err)
		}
		offer := func(i int) error {
			dup := events.Ents[which%i].K
			var rerr error
			how := ""
			switch style % 3 {
			case 0:
				how = "AssembleEntry"
				_, rerr = ma.AssembleEntry(dup)
			case 1:
				how = "AssembleKey().AssignString"
				rerr = ma.AssembleKey().AssignString(dup)
			default:
				how = "AssembleKey().AssignNode"
				rerr = ma.AssembleKey().AssignNode(basicnode.NewString(dup))
			}
			if rerr == nil && deferredOK && style%3 != 0 {
				how += " + AssembleValue().AssignNull"
				rerr = ma.AssembleValue().AssignNull()
			}
			if rerr == nil {
				return fmt.Errorf("%s accepted the repeated key %s before entry %d", how, val.Txt(dup), i)
			}
			var rk datamodel.ErrRepeatedMapKey
			var rkp *datamodel.ErrRepeatedMapKey
			if !errors.As(rerr, &rk) && !errors.As(rerr, &rkp) {
				return fmt.Errorf("%s of the repeated key %s returned %T (%v), not a repeated-key error", how, val.Txt(dup), rerr, rerr)
			}
			return nil
		}
		for i, e := range events.Ents {
			if i == at {
				if err := offer(i); err != nil {
					return err
				}
			}
			var va datamodel.NodeAssembler
			switch p.Next(3) {
			case 0:
				if va, err = ma.AssembleEntry(e.K); err != nil {
					return fmt.Errorf("AssembleEntry(%s) (a repeated key was refused before entry %d): %w", val.Txt(e.K), at, err)
				}
			case 1:
				if err := ma.AssembleKey().AssignString(e.K); err != nil {
					return fmt.Errorf("AssembleKey().AssignString(%s) (a repeated key was refused before entry %d): %w", val.Txt(e.K), at, err)
				}
				va = ma.AssembleValue()
			default:
				if err := ma.AssembleKey().AssignNode(basicnode.NewString(e.K)); err != nil {
					return fmt.Errorf("AssembleKey().AssignNode(%s) (a repeated key was refused before entry %d): %w", val.Txt(e.K), at, err)
				}
				va = ma.AssembleValue()
			}
			if err := nodes.Assemble(va, e.V, p, 1); err != nil {
				return fmt.Errorf("value of %s: %w", val.Txt(e.K), err)
			}
		}
		if at >= len(events.Ents) {
			if err := offer(len(events.Ents)); err != nil {
				return err
			}
		}
		if err := ma.Finish(); err != nil {
			return fmt.Errorf("Finish (a repeated key was refused before entry %d): %w", at, err)
		}
		n = nb.Build()
		return nil
	})
	return n, err
}

func HasDup(v val.V) bool {
	return v.Has(func(x val.V) bool {
		seen := map[string]bool{}
		for _, e := range x.Ents {
			if seen[e.K] {
				return true
			}
			seen[e.K] = true
		}
		return false
	})
}
