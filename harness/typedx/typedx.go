// Package typedx holds the engine-independent pieces of the typed-node checks (C08/C09/C13):
// reading both views of a typed node against reference views, feeding event trees to typed
// builders through several routes. Used by the harness tests and by the differential test
// that is dropped into freshly generated packages.
package typedx

import (
	"os"
	"bytes"
	"encoding/base64"
	"encoding/json"
	"fmt"
	"strconv"
	"strings"

	"github.com/ipfs/go-cid"
	"github.com/ipld/go-ipld-prime/codec/dagcbor"
	"github.com/ipld/go-ipld-prime/codec/dagjson"
	"github.com/ipld/go-ipld-prime/datamodel"
	"github.com/ipld/go-ipld-prime/schema"

	"verif/evid"
	"verif/nodes"
	"verif/refcbor"
	"verif/val"
)

func ReprOf(n datamodel.Node) (datamodel.Node, error) {
	tn, ok := n.(schema.TypedNode)
	if !ok {
		return nil, fmt.Errorf("node %T is not a schema.TypedNode", n)
	}
	return tn.Representation(), nil
}

// checkViews reads both views of a typed node against the reference views.
func CheckViews(n datamodel.Node, tview, rview val.V, what string) error {
	got, err := nodes.FullTyped.Read(n)
	if err != nil {
		return fmt.Errorf("%s: type-level view inconsistent: %w", what, err)
	}
	if !val.Equal(got, tview, val.Ordered) {
		return fmt.Errorf("%s: type-level view differs: %s (got vs want)", what, val.Diff(got, tview))
	}
	var rn datamodel.Node
	if err := evid.Guard("Representation()", func() error { var e error; rn, e = ReprOf(n); return e }); err != nil {
		return fmt.Errorf("%s: %w", what, err)
	}
	rgot, err := nodes.FullRepr.Read(rn)
	if err != nil {
		return fmt.Errorf("%s: representation view inconsistent: %w", what, err)
	}
	if !val.Equal(rgot, rview, val.Ordered) {
		return fmt.Errorf("%s: representation view differs: %s (got vs want)", what, val.Diff(rgot, rview))
	}
	// reading one view does not disturb the other: the type-level view once more (a plain read), then the
	// representation once more
	again, err := (&nodes.Reader{Typed: true}).Read(n)
	if err != nil || !val.Equal(again, tview, val.Ordered) {
		return fmt.Errorf("%s: after its representation was read, the type-level view reads differently: %s (err %v)", what, val.Diff(again, tview), err)
	}
	ragain, err := nodes.Plain.Read(rn)
	if err != nil || !val.Equal(ragain, rview, val.Ordered) {
		return fmt.Errorf("%s: the representation view reads differently the second time: %s (err %v)", what, val.Diff(ragain, rview), err)
	}
	return nil
}

func StripAbsent(v val.V) val.V {
	c := v
	if v.Items != nil {
		c.Items = make([]val.V, len(v.Items))
		for i := range v.Items {
			c.Items[i] = StripAbsent(v.Items[i])
		}
	}
	if v.Ents != nil {
		c.Ents = make([]val.Ent, 0, len(v.Ents))
		for _, e := range v.Ents {
			if e.V.K == val.Absent {
				continue
			}
			c.Ents = append(c.Ents, val.Ent{K: e.K, V: StripAbsent(e.V)})
		}
	}
	return c
}

// eventsJSON renders a tree (maps may repeat keys) as DAG-JSON text; ok=false if it has floats.
func EventsJSON(v val.V) (string, bool) {
	switch v.K {
	case val.Null:
		return "null", true
	case val.Bool:
		return strconv.FormatBool(v.B), true
	case val.Int:
		return strconv.FormatInt(v.I, 10), true
	case val.String:
		if !isValidUTF8(v.S) {
			return "", false
		}
		b, _ := json.Marshal(v.S)
		return string(b), true
	case val.Bytes:
		return `{"/":{"bytes":"` + base64.RawStdEncoding.EncodeToString([]byte(v.S)) + `"}}`, true
	case val.Link:
		c, err := cid.Cast([]byte(v.S))
		if err != nil {
			return "", false
		}
		return `{"/":"` + c.String() + `"}`, true
	case val.List:
		parts := make([]string, len(v.Items))
		for i, it := range v.Items {
			s, ok := EventsJSON(it)
			if !ok {
				return "", false
			}
			parts[i] = s
		}
		return "[" + strings.Join(parts, ",") + "]", true
	case val.Map:
		if val.IsReservedShape(v) {
			return "", false
		}
		parts := make([]string, len(v.Ents))
		for i, e := range v.Ents {
			if !isValidUTF8(e.K) {
				return "", false
			}
			s, ok := EventsJSON(e.V)
			if !ok {
				return "", false
			}
			k, _ := json.Marshal(e.K)
			parts[i] = string(k) + ":" + s
		}
		return "{" + strings.Join(parts, ",") + "}", true
	}
	return "", false
}

func isValidUTF8(s string) bool { return strings.ToValidUTF8(s, "�") == s && !strings.Contains(s, "�") }

// typedProto returns the prototype for the level.
func TypedProto(p schema.TypedPrototype, level int) datamodel.NodePrototype {
	if level == 1 {
		return p.Representation()
	}
	return p
}

// Feed offers the events to the builder through the chosen route and reports acceptance.
func Feed(np datamodel.NodePrototype, events val.V, via string, prog []byte) (n datamodel.Node, accepted bool, applicable bool, err error) {
	return FeedInto(np.NewBuilder(), fmt.Sprintf("%T", np), events, via, prog)
}

// FeedInto is Feed with a builder supplied by the caller (a fresh one, or one that was Reset after earlier use).
func FeedInto(nb datamodel.NodeBuilder, npName string, events val.V, via string, prog []byte) (n datamodel.Node, accepted bool, applicable bool, err error) {
	var ferr error
	switch via {
	case "direct":
		ferr = evid.Guard("assembling", func() error { return nodes.Assemble(nb, events, nodes.NewProg(prog), 0) })
	case "dagcbor", "dagcbor-relaxed":
		b, eerr := refcbor.EncodeUnsorted(events)
		if eerr != nil {
			return nil, false, false, nil
		}
		ferr = evid.Guard("dagcbor.Decode", func() error {
			return dagcbor.DecodeOptions{AllowLinks: true, RelaxedDecode: via == "dagcbor-relaxed"}.Decode(nb, bytes.NewReader(b))
		})
	case "dagjson":
		text, ok := EventsJSON(events)
		if !ok {
			return nil, false, false, nil
		}
		ferr = evid.Guard("dagjson.Decode", func() error { return dagjson.Decode(nb, strings.NewReader(text)) })
	}
	if ferr != nil {
		if os.Getenv("VERIF_STACK") != "" {
			fmt.Printf("FEED-ERROR (%s via %s): %v\n", npName, via, ferr)
		}
		if strings.HasPrefix(ferr.Error(), "PANIC") {
			return nil, false, true, ferr
		}
		return nil, false, true, nil
	}
	if gerr := evid.Guard("Build", func() error { n = nb.Build(); return nil }); gerr != nil {
		return nil, false, true, gerr
	}
	return n, true, true, nil
}

func HasDup(v val.V) bool {
	return v.Has(func(x val.V) bool {
		seen := map[string]bool{}
		for _, e := range x.Ents {
			if seen[e.K] {
				return true
			}
			seen[e.K] = true
		}
		return false
	})
}

