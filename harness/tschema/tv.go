package tschema

import (
	"fmt"
	"strconv"
	"strings"

	"github.com/ipld/go-ipld-prime/datamodel"
	"pgregory.net/rapid"

	"verif/val"
)

// TV is a typed value as plain data.
type TV struct {
	K      string `json:"k"` // scalar | null | absent | list | map | struct | union | enum
	V      val.V  `json:"v"` // scalar / link / any content
	Items  []TV   `json:"items,omitempty"` // list elements; map values; struct fields in declaration order
	Keys   []string `json:"keys,omitempty"` // map keys
	Member int    `json:"member,omitempty"` // union / enum member index
}

func kindOfBuiltin(n string) val.Kind {
	switch n {
	case "Bool":
		return val.Bool
	case "Int":
		return val.Int
	case "Float":
		return val.Float
	case "String":
		return val.String
	case "Bytes":
		return val.Bytes
	case "Link":
		return val.Link
	}
	return val.Null
}

var tvStrings = []string{"", "a", "b", "ab", "x1", "abc", "0", "zz9", "hello"}

func drawScalar(t *rapid.T, typ string, label string) val.V {
	switch typ {
	case "Bool":
		return val.MkBool(rapid.Bool().Draw(t, label))
	case "Int":
		return val.MkInt(val.DrawInt(t, label, rapid.Bool().Draw(t, label+".small")))
	case "Float":
		return val.MkFloat(val.DrawFloat(t, label))
	case "String":
		if rapid.Bool().Draw(t, label+".plain") {
			return val.MkString(rapid.SampledFrom(tvStrings).Draw(t, label))
		}
		return val.MkString(rapid.StringMatching(`[a-z0-9]{0,6}`).Draw(t, label))
	case "Bytes":
		return val.MkBytes(rapid.SliceOfN(rapid.Byte(), 0, 6).Draw(t, label))
	case "Link":
		return val.MkLink(val.DrawCid(t, label))
	default: // Any: any non-null value
		p := val.Profile{MaxDepth: 2, MaxWidth: 3, Float: true, Bytes: true, Links: true, SmallKeys: true}
		return val.DrawV(t, &p, label)
	}
}

// DrawTV draws a value of the named type.
func DrawTV(t *rapid.T, s *Schema, typ string, label string) TV {
	if IsBuiltin(typ) {
		return TV{K: "scalar", V: drawScalar(t, typ, label)}
	}
	ty := s.Type(typ)
	maybeNull := func(nullable bool, inner func() TV) TV {
		if nullable && rapid.IntRange(0, 2).Draw(t, label+".null") == 0 {
			return TV{K: "null"}
		}
		return inner()
	}
	switch ty.Kind {
	case "list":
		n := rapid.IntRange(0, 3).Draw(t, label+".n")
		tv := TV{K: "list", Items: []TV{}}
		for i := 0; i < n; i++ {
			tv.Items = append(tv.Items, maybeNull(ty.ElemNullable, func() TV { return DrawTV(t, s, ty.Elem, label+".e") }))
		}
		return tv
	case "map":
		n := rapid.IntRange(0, 3).Draw(t, label+".n")
		tv := TV{K: "map", Items: []TV{}, Keys: []string{}}
		seen := map[string]bool{}
		for i := 0; i < n; i++ {
			k := ""
			if ty.Key != "" {
				names := []string{}
				for _, e := range s.Type(ty.Key).Enum {
					names = append(names, e.Name)
				}
				k = rapid.SampledFrom(names).Draw(t, label+".key")
			} else {
				k = rapid.SampledFrom([]string{"k", "a", "b", "zz", "", "k2", "0"}).Draw(t, label+".key")
			}
			if seen[k] {
				continue
			}
			seen[k] = true
			tv.Keys = append(tv.Keys, k)
			tv.Items = append(tv.Items, maybeNull(ty.ElemNullable, func() TV { return DrawTV(t, s, ty.Elem, label+".v") }))
		}
		return tv
	case "struct":
		tv := TV{K: "struct", Items: make([]TV, len(ty.Fields))}
		trailingAbsent := true
		for i := len(ty.Fields) - 1; i >= 0; i-- {
			f := ty.Fields[i]
			canAbsent := f.Optional && (ty.Repr != "tuple" || trailingAbsent)
			if canAbsent && rapid.IntRange(0, 2).Draw(t, label+".absent") == 0 {
				tv.Items[i] = TV{K: "absent"}
				continue
			}
			trailingAbsent = false
			tv.Items[i] = maybeNull(f.Nullable, func() TV { return DrawTV(t, s, f.Type, label+"."+f.Name) })
		}
		return tv
	case "union":
		m := rapid.IntRange(0, len(ty.Members)-1).Draw(t, label+".member")
		return TV{K: "union", Member: m, Items: []TV{DrawTV(t, s, ty.Members[m].Type, label+".m")}}
	case "enum":
		return TV{K: "enum", Member: rapid.IntRange(0, len(ty.Enum)-1).Draw(t, label+".member")}
	}
	panic("bad type kind " + ty.Kind)
}

// Exercises says which schema features the value actually exercises (non-triviality rule).
func (tv TV) Exercises(s *Schema, typ string, into map[string]bool) {
	if tv.K == "null" {
		into["null"] = true
		return
	}
	if tv.K == "absent" {
		into["absent"] = true
		return
	}
	if IsBuiltin(typ) {
		return
	}
	ty := s.Type(typ)
	into[ty.Kind+":"+ty.Repr] = true
	switch ty.Kind {
	case "list", "map":
		for _, it := range tv.Items {
			it.Exercises(s, ty.Elem, into)
		}
	case "struct":
		for i, it := range tv.Items {
			if ty.Fields[i].Rename != "" && it.K != "absent" {
				into["rename"] = true
			}
			it.Exercises(s, ty.Fields[i].Type, into)
		}
	case "union":
		if tv.Member > 0 {
			into["non-first-member"] = true
		}
		tv.Items[0].Exercises(s, ty.Members[tv.Member].Type, into)
	}
}

// ReprKey is the representation-level form of a typed map's key (the key type's own representation).
func (s *Schema) ReprKey(ty *TypeSpec, key string) string {
	if ty.Key == "" {
		return key
	}
	for _, m := range s.Type(ty.Key).Enum {
		if m.Name == key {
			return m.Str
		}
	}
	return key
}

// TypeView is what the type-level node must read as. Absent struct fields are Absent markers.
func TypeView(s *Schema, typ string, tv TV) val.V {
	switch tv.K {
	case "null":
		return val.MkNull()
	case "absent":
		return val.MkAbsent()
	}
	if IsBuiltin(typ) {
		return tv.V
	}
	ty := s.Type(typ)
	switch ty.Kind {
	case "list":
		out := val.V{K: val.List, Items: []val.V{}}
		for _, it := range tv.Items {
			out.Items = append(out.Items, TypeView(s, ty.Elem, it))
		}
		return out
	case "map":
		out := val.V{K: val.Map, Ents: []val.Ent{}}
		for i, it := range tv.Items {
			out.Ents = append(out.Ents, val.Ent{K: tv.Keys[i], V: TypeView(s, ty.Elem, it)})
		}
		return out
	case "struct":
		out := val.V{K: val.Map, Ents: []val.Ent{}}
		for i, it := range tv.Items {
			out.Ents = append(out.Ents, val.Ent{K: ty.Fields[i].Name, V: TypeView(s, ty.Fields[i].Type, it)})
		}
		return out
	case "union":
		m := ty.Members[tv.Member]
		return val.MkMap(val.Ent{K: m.Type, V: TypeView(s, m.Type, tv.Items[0])})
	case "enum":
		return val.MkString(ty.Enum[tv.Member].Name)
	}
	panic("bad kind")
}

func (f FieldSpec) Serial() string {
	if f.Rename != "" {
		return f.Rename
	}
	return f.Name
}

// ReprView is what the representation node must read as; ok=false when the value has no
// representation (never generated).
func ReprView(s *Schema, typ string, tv TV) (val.V, bool) {
	if tv.K == "null" {
		return val.MkNull(), true
	}
	if IsBuiltin(typ) {
		return tv.V, true
	}
	ty := s.Type(typ)
	switch ty.Kind {
	case "list":
		out := val.V{K: val.List, Items: []val.V{}}
		for _, it := range tv.Items {
			r, ok := ReprView(s, ty.Elem, it)
			if !ok {
				return val.V{}, false
			}
			out.Items = append(out.Items, r)
		}
		return out, true
	case "map":
		out := val.V{K: val.Map, Ents: []val.Ent{}}
		for i, it := range tv.Items {
			r, ok := ReprView(s, ty.Elem, it)
			if !ok {
				return val.V{}, false
			}
			out.Ents = append(out.Ents, val.Ent{K: s.ReprKey(ty, tv.Keys[i]), V: r})
		}
		return out, true
	case "struct":
		switch ty.Repr {
		case "map":
			out := val.V{K: val.Map, Ents: []val.Ent{}}
			for i, it := range tv.Items {
				if it.K == "absent" {
					continue
				}
				r, ok := ReprView(s, ty.Fields[i].Type, it)
				if !ok {
					return val.V{}, false
				}
				out.Ents = append(out.Ents, val.Ent{K: ty.Fields[i].Serial(), V: r})
			}
			return out, true
		case "tuple":
			out := val.V{K: val.List, Items: []val.V{}}
			last := len(tv.Items)
			for last > 0 && tv.Items[last-1].K == "absent" {
				last--
			}
			for i := 0; i < last; i++ {
				if tv.Items[i].K == "absent" {
					return val.V{}, false
				}
				r, ok := ReprView(s, ty.Fields[i].Type, tv.Items[i])
				if !ok {
					return val.V{}, false
				}
				out.Items = append(out.Items, r)
			}
			return out, true
		case "stringjoin":
			parts := make([]string, len(tv.Items))
			for i, it := range tv.Items {
				r, ok := ReprView(s, ty.Fields[i].Type, it)
				if !ok || r.K != val.String {
					return val.V{}, false
				}
				parts[i] = r.S
			}
			return val.MkString(strings.Join(parts, ty.Delim)), true
		case "listpairs":
			out := val.V{K: val.List, Items: []val.V{}}
			for i, it := range tv.Items {
				if it.K == "absent" {
					continue
				}
				r, ok := ReprView(s, ty.Fields[i].Type, it)
				if !ok {
					return val.V{}, false
				}
				out.Items = append(out.Items, val.MkList(val.MkString(ty.Fields[i].Name), r))
			}
			return out, true
		}
	case "union":
		m := ty.Members[tv.Member]
		r, ok := ReprView(s, m.Type, tv.Items[0])
		if !ok {
			return val.V{}, false
		}
		switch ty.Repr {
		case "keyed":
			return val.MkMap(val.Ent{K: m.Discr, V: r}), true
		case "kinded":
			return r, true
		case "stringprefix":
			if r.K != val.String {
				return val.V{}, false
			}
			return val.MkString(m.Discr + ty.Delim + r.S), true
		}
	case "enum":
		e := ty.Enum[tv.Member]
		if ty.Repr == "int" {
			return val.MkInt(int64(e.Int)), true
		}
		return val.MkString(e.Str), true
	}
	panic("bad kind")
}

// ---------------------------------------------------------------------------------------
// conformance: parsing a data-model tree (maps may contain repeated keys) against a type

// ErrUndecided marks inputs on which the specification (or the engines) leave acceptance open;
// the checks assert nothing about them.
var ErrUndecided = fmt.Errorf("conformance undecided")

type Level int

const (
	TypeLevel Level = iota
	ReprLevel
)

func reject(format string, a ...any) error { return fmt.Errorf("does not conform: "+format, a...) }

func dupKey(v val.V) (string, bool) {
	seen := map[string]bool{}
	for _, e := range v.Ents {
		if seen[e.K] {
			return e.K, true
		}
		seen[e.K] = true
	}
	return "", false
}

// Parse decides whether v conforms to the type at the given level and returns the typed value
// it denotes.
func Parse(s *Schema, typ string, lvl Level, v val.V, nullable bool) (TV, error) {
	if v.K == val.Null {
		if nullable {
			return TV{K: "null"}, nil
		}
		if typ == "Any" {
			return TV{}, ErrUndecided
		}
		return TV{}, reject("null where %s is not nullable", typ)
	}
	if v.K == val.Absent {
		return TV{}, reject("absent is not data")
	}
	if v.K == val.Uint {
		return TV{}, ErrUndecided
	}
	if IsBuiltin(typ) {
		if typ == "Any" {
			if v.Has(func(x val.V) bool { return x.K == val.Null || x.K == val.Uint }) {
				return TV{}, ErrUndecided
			}
			if v.Has(func(x val.V) bool { _, d := dupKey(x); return d }) {
				return TV{}, reject("repeated key inside Any")
			}
			return TV{K: "scalar", V: v}, nil
		}
		if v.K != kindOfBuiltin(typ) {
			return TV{}, reject("%v where %s is expected", v.K, typ)
		}
		return TV{K: "scalar", V: v}, nil
	}
	ty := s.Type(typ)
	switch ty.Kind {
	case "list":
		if v.K != val.List {
			return TV{}, reject("%v where list %s is expected", v.K, typ)
		}
		tv := TV{K: "list", Items: []TV{}}
		for _, it := range v.Items {
			e, err := Parse(s, ty.Elem, lvl, it, ty.ElemNullable)
			if err != nil {
				return TV{}, err
			}
			tv.Items = append(tv.Items, e)
		}
		return tv, nil
	case "map":
		if v.K != val.Map {
			return TV{}, reject("%v where map %s is expected", v.K, typ)
		}
		if k, d := dupKey(v); d {
			return TV{}, reject("repeated map key %q", k)
		}
		tv := TV{K: "map", Items: []TV{}, Keys: []string{}}
		for _, e := range v.Ents {
			x, err := Parse(s, ty.Elem, lvl, e.V, ty.ElemNullable)
			if err != nil {
				return TV{}, err
			}
			key := e.K
			if ty.Key != "" {
				// the key is a member of the key enum: by name at type level, by its representation string below
				found := false
				for _, m := range s.Type(ty.Key).Enum {
					w := m.Name
					if lvl == ReprLevel {
						w = m.Str
					}
					if w == e.K {
						key, found = m.Name, true
					}
				}
				if !found {
					return TV{}, reject("map key %q is not a member of enum %s", e.K, ty.Key)
				}
			}
			tv.Keys = append(tv.Keys, key)
			tv.Items = append(tv.Items, x)
		}
		return tv, nil
	case "enum":
		if lvl == TypeLevel || ty.Repr == "string" {
			if v.K != val.String {
				return TV{}, reject("%v where enum %s is expected", v.K, typ)
			}
			for i, e := range ty.Enum {
				want := e.Name
				if lvl == ReprLevel {
					want = e.Str
				}
				if v.S == want {
					return TV{K: "enum", Member: i}, nil
				}
			}
			return TV{}, reject("%q is not a member of enum %s", v.S, typ)
		}
		if v.K != val.Int {
			return TV{}, reject("%v where int enum %s is expected", v.K, typ)
		}
		for i, e := range ty.Enum {
			if v.I == int64(e.Int) {
				return TV{K: "enum", Member: i}, nil
			}
		}
		return TV{}, reject("%d is not a member of enum %s", v.I, typ)
	case "union":
		return parseUnion(s, ty, lvl, v)
	case "struct":
		return parseStruct(s, ty, lvl, v)
	}
	panic("bad kind")
}

func kindName(k val.Kind) datamodel.Kind {
	switch k {
	case val.Bool:
		return datamodel.Kind_Bool
	case val.Int, val.Uint:
		return datamodel.Kind_Int
	case val.Float:
		return datamodel.Kind_Float
	case val.String:
		return datamodel.Kind_String
	case val.Bytes:
		return datamodel.Kind_Bytes
	case val.Link:
		return datamodel.Kind_Link
	case val.List:
		return datamodel.Kind_List
	case val.Map:
		return datamodel.Kind_Map
	}
	return datamodel.Kind_Null
}

func parseUnion(s *Schema, ty *TypeSpec, lvl Level, v val.V) (TV, error) {
	if lvl == TypeLevel || ty.Repr == "keyed" {
		if v.K != val.Map {
			return TV{}, reject("%v where union %s is expected", v.K, ty.Name)
		}
		if len(v.Ents) != 1 {
			return TV{}, reject("union %s needs exactly one entry, got %d", ty.Name, len(v.Ents))
		}
		for i, m := range ty.Members {
			key := m.Type
			if lvl == ReprLevel {
				key = m.Discr
			}
			if v.Ents[0].K == key {
				x, err := Parse(s, m.Type, lvl, v.Ents[0].V, false)
				if err != nil {
					return TV{}, err
				}
				return TV{K: "union", Member: i, Items: []TV{x}}, nil
			}
		}
		return TV{}, reject("%q is not a member of union %s", v.Ents[0].K, ty.Name)
	}
	if ty.Repr == "kinded" {
		for i, m := range ty.Members {
			if s.ReprKind(m.Type) == kindName(v.K) {
				x, err := Parse(s, m.Type, lvl, v, false)
				if err != nil {
					return TV{}, err
				}
				return TV{K: "union", Member: i, Items: []TV{x}}, nil
			}
		}
		return TV{}, reject("kind %v has no member in union %s", v.K, ty.Name)
	}
	// stringprefix
	if v.K != val.String {
		return TV{}, reject("%v where stringprefix union %s is expected", v.K, ty.Name)
	}
	for i, m := range ty.Members {
		var rest string
		if ty.Delim != "" {
			parts := strings.SplitN(v.S, ty.Delim, 2)
			if len(parts) != 2 || parts[0] != m.Discr {
				continue
			}
			rest = parts[1]
		} else {
			if !strings.HasPrefix(v.S, m.Discr) {
				continue
			}
			rest = v.S[len(m.Discr):]
		}
		x, err := Parse(s, m.Type, lvl, val.MkString(rest), false)
		if err != nil {
			return TV{}, err
		}
		return TV{K: "union", Member: i, Items: []TV{x}}, nil
	}
	return TV{}, reject("%q has no known prefix of union %s", v.S, ty.Name)
}

func parseStruct(s *Schema, ty *TypeSpec, lvl Level, v val.V) (TV, error) {
	tv := TV{K: "struct", Items: make([]TV, len(ty.Fields))}
	for i := range tv.Items {
		tv.Items[i] = TV{K: "absent"}
	}
	finish := func() (TV, error) {
		for i, f := range ty.Fields {
			if tv.Items[i].K == "absent" && !f.Optional {
				return TV{}, reject("required field %s.%s is missing", ty.Name, f.Name)
			}
		}
		return tv, nil
	}
	asMap := func(ents []val.Ent, keyOf func(FieldSpec) string) (TV, error) {
		seen := map[string]bool{}
		for _, e := range ents {
			if seen[e.K] {
				return TV{}, reject("repeated field %q in %s", e.K, ty.Name)
			}
			seen[e.K] = true
			idx := -1
			for i, f := range ty.Fields {
				if keyOf(f) == e.K {
					idx = i
				}
			}
			if idx < 0 {
				return TV{}, reject("%q is not a field of %s", e.K, ty.Name)
			}
			x, err := Parse(s, ty.Fields[idx].Type, lvl, e.V, ty.Fields[idx].Nullable)
			if err != nil {
				return TV{}, err
			}
			tv.Items[idx] = x
		}
		return finish()
	}
	if lvl == TypeLevel || ty.Repr == "map" {
		if v.K != val.Map {
			return TV{}, reject("%v where struct %s is expected", v.K, ty.Name)
		}
		if lvl == TypeLevel {
			return asMap(v.Ents, func(f FieldSpec) string { return f.Name })
		}
		return asMap(v.Ents, FieldSpec.Serial)
	}
	switch ty.Repr {
	case "tuple":
		if v.K != val.List {
			return TV{}, reject("%v where tuple %s is expected", v.K, ty.Name)
		}
		if len(v.Items) > len(ty.Fields) {
			return TV{}, reject("tuple %s has %d fields, got %d elements", ty.Name, len(ty.Fields), len(v.Items))
		}
		for i, it := range v.Items {
			x, err := Parse(s, ty.Fields[i].Type, lvl, it, ty.Fields[i].Nullable)
			if err != nil {
				return TV{}, err
			}
			tv.Items[i] = x
		}
		return finish()
	case "stringjoin":
		if v.K != val.String {
			return TV{}, reject("%v where stringjoin %s is expected", v.K, ty.Name)
		}
		parts := strings.Split(v.S, ty.Delim)
		if len(parts) != len(ty.Fields) {
			return TV{}, reject("stringjoin %s has %d fields, got %d parts", ty.Name, len(ty.Fields), len(parts))
		}
		for i, p := range parts {
			x, err := Parse(s, ty.Fields[i].Type, lvl, val.MkString(p), false)
			if err != nil {
				return TV{}, err
			}
			tv.Items[i] = x
		}
		return finish()
	case "listpairs":
		if v.K != val.List {
			return TV{}, reject("%v where listpairs %s is expected", v.K, ty.Name)
		}
		var ents []val.Ent
		for _, it := range v.Items {
			if it.K != val.List || len(it.Items) != 2 || it.Items[0].K != val.String {
				return TV{}, reject("listpairs %s entry is not a [string, value] pair", ty.Name)
			}
			ents = append(ents, val.Ent{K: it.Items[0].S, V: it.Items[1]})
		}
		return asMap(ents, func(f FieldSpec) string { return f.Name })
	}
	panic("bad struct repr")
}

// MutateEvents applies one local mutation to a data-model tree; unlike val.Mutate it can
// also duplicate map entries (same or different value) and nullify values.
func MutateEvents(v val.V, at, how int) (val.V, string, bool) {
	c := v.Clone()
	n := 0
	done := false
	op := ""
	ok := false
	var rec func(x *val.V)
	rec = func(x *val.V) {
		if done {
			return
		}
		if n == at {
			done = true
			switch {
			case how%7 == 0 && x.K == val.Map && len(x.Ents) > 0:
				i := (how / 7) % len(x.Ents)
				d := x.Ents[i]
				if (how/49)%2 == 1 {
					d.V = val.MkInt(int64(how))
				}
				pos := (how / 3) % (len(x.Ents) + 1)
				x.Ents = append(x.Ents[:pos:pos], append([]val.Ent{d}, x.Ents[pos:]...)...)
				op, ok = "dupEntry", true
			case how%7 == 1:
				*x = val.MkNull()
				op, ok = "nullify", true
			case how%7 == 2 && x.K == val.List:
				x.Items = append(x.Items, val.MkString("extra"+strconv.Itoa(how)))
				op, ok = "extraElement", true
			case how%7 == 3 && x.K == val.String:
				x.S = x.S + rapidishSuffix(how)
				op, ok = "stringTweak", true
			case how%7 == 4 && x.K == val.String:
				// insert a short piece somewhere inside (a discriminant or field with extra characters, a doubled delimiter …)
				pos := (how / 7) % (len(x.S) + 1)
				x.S = x.S[:pos] + []string{"x", ":", "0", "-", ",", "="}[(how/91)%6] + x.S[pos:]
				op, ok = "stringInsert", true
			case how%7 == 5 && x.K == val.String && len(x.S) > 0:
				pos := (how / 7) % len(x.S)
				x.S = x.S[:pos] + x.S[pos+1:]
				op, ok = "stringDelete", true
			default:
				var m val.V
				m, ok = val.Mutate(*x, 0, how)
				if ok {
					*x = m
				}
				op = "mutate"
			}
			return
		}
		n++
		for i := range x.Items {
			rec(&x.Items[i])
		}
		for i := range x.Ents {
			rec(&x.Ents[i].V)
		}
	}
	rec(&c)
	return c, op, ok && done
}

func rapidishSuffix(how int) string {
	return []string{":", ",", "x", "|q", "-", "=z", "/", ":a:b"}[(how/7)%8]
}

// SortMaps returns the typed value with every typed map (and every map inside Any content)
// in DAG-CBOR canonical key order: what decoding a canonical encoding produces.
func SortMaps(s *Schema, typ string, tv TV) TV { return SortMapsBy(s, typ, tv, val.LessLenFirst) }

// SortMapsBy is SortMaps for an arbitrary key order (bytewise for DAG-JSON).
func SortMapsBy(s *Schema, typ string, tv TV, less func(a, b string) bool) TV {
	if tv.K == "null" || tv.K == "absent" {
		return tv
	}
	if IsBuiltin(typ) {
		if typ == "Any" {
			tv.V = tv.V.SortKeys(less)
		}
		return tv
	}
	ty := s.Type(typ)
	out := tv
	out.Items = make([]TV, len(tv.Items))
	switch ty.Kind {
	case "list":
		for i, it := range tv.Items {
			out.Items[i] = SortMapsBy(s, ty.Elem, it, less)
		}
	case "map":
		idx := make([]int, len(tv.Keys))
		for i := range idx {
			idx[i] = i
		}
		for i := 1; i < len(idx); i++ {
			for j := i; j > 0 && less(s.ReprKey(ty, tv.Keys[idx[j]]), s.ReprKey(ty, tv.Keys[idx[j-1]])); j-- {
				idx[j], idx[j-1] = idx[j-1], idx[j]
			}
		}
		out.Keys = make([]string, len(tv.Keys))
		for i, k := range idx {
			out.Keys[i] = tv.Keys[k]
			out.Items[i] = SortMapsBy(s, ty.Elem, tv.Items[k], less)
		}
	case "struct":
		for i, it := range tv.Items {
			out.Items[i] = SortMapsBy(s, ty.Fields[i].Type, it, less)
		}
	case "union":
		out.Items[0] = SortMapsBy(s, ty.Members[tv.Member].Type, tv.Items[0], less)
	}
	return out
}

// Vocabulary lists the strings that mean something in the schema (type names, field names,
// serial names, discriminants, enum member names and their representations).
func (s *Schema) Vocabulary() []string {
	seen := map[string]bool{}
	var out []string
	add := func(w string) {
		if !seen[w] {
			seen[w] = true
			out = append(out, w)
		}
	}
	for _, t := range s.Types {
		add(t.Name)
		for _, f := range t.Fields {
			add(f.Name)
			add(f.Serial())
		}
		for _, m := range t.Members {
			add(m.Type)
			if m.Discr != "" {
				add(m.Discr)
				add(m.Discr + t.Delim)
			}
		}
		for _, e := range t.Enum {
			add(e.Name)
			add(e.Str)
		}
	}
	return out
}

// SubstituteWord replaces the string at position at (or one key of the map there) by word.
func SubstituteWord(v val.V, at int, word string, which int) (val.V, bool) {
	c := v.Clone()
	n := 0
	ok := false
	var rec func(x *val.V) bool
	rec = func(x *val.V) bool {
		if n == at {
			switch {
			case x.K == val.String:
				x.S, ok = word, true
			case x.K == val.Map && len(x.Ents) > 0:
				x.Ents[which%len(x.Ents)].K, ok = word, true
			}
			return true
		}
		n++
		for i := range x.Items {
			if rec(&x.Items[i]) {
				return true
			}
		}
		for i := range x.Ents {
			if rec(&x.Ents[i].V) {
				return true
			}
		}
		return false
	}
	rec(&c)
	return c, ok
}
