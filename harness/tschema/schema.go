// Package tschema generates IPLD schemas (as plain data), typed values inhabiting them, and the
// reference functions that say what a typed node must look like at type level and at
// representation level, and which data-model trees conform. Written from the IPLD schema
// specification; shares no code with bindnode or the code generator.
package tschema

import (
	"fmt"
	"strconv"

	"github.com/ipld/go-ipld-prime/datamodel"
	"github.com/ipld/go-ipld-prime/schema"
	"pgregory.net/rapid"
)

type FieldSpec struct {
	Name     string `json:"name"`
	Type     string `json:"type"`
	Optional bool   `json:"optional,omitempty"`
	Nullable bool   `json:"nullable,omitempty"`
	Rename   string `json:"rename,omitempty"` // map representation only
}

type MemberSpec struct {
	Type  string `json:"type"`
	Discr string `json:"discr,omitempty"` // keyed / stringprefix
}

type EnumSpec struct {
	Name string `json:"name"`
	Str  string `json:"str,omitempty"`
	Int  int    `json:"int,omitempty"`
}

type TypeSpec struct {
	Name string `json:"name"`
	Kind string `json:"kind"` // list | map | struct | union | enum
	Elem string `json:"elem,omitempty"`
	// Key (maps): the key type when it is not String: the name of an earlier enum with string representation
	Key          string       `json:"key,omitempty"`
	ElemNullable bool         `json:"elem_nullable,omitempty"`
	Fields       []FieldSpec  `json:"fields,omitempty"`
	Repr         string       `json:"repr,omitempty"` // struct: map|tuple|stringjoin|listpairs; union: keyed|kinded|stringprefix; enum: string|int
	Delim        string       `json:"delim,omitempty"`
	Members      []MemberSpec `json:"members,omitempty"`
	Enum         []EnumSpec   `json:"enum,omitempty"`
}

// Schema lists named types in dependency order: a type refers only to earlier types and to
// the built-in scalars Bool Int Float String Bytes Link Any.
type Schema struct {
	Types []TypeSpec `json:"types"`
}

var Builtins = []string{"Bool", "Int", "Float", "String", "Bytes", "Link", "Any"}

func IsBuiltin(n string) bool {
	for _, b := range Builtins {
		if b == n {
			return true
		}
	}
	return false
}

func (s *Schema) Type(name string) *TypeSpec {
	for i := range s.Types {
		if s.Types[i].Name == name {
			return &s.Types[i]
		}
	}
	return nil
}

// GenCompatible reports whether the code generator's documented feature set covers the schema
// (no enums, no listpairs, no Any).
func (s *Schema) GenCompatible() bool {
	for _, t := range s.Types {
		if t.Kind == "enum" || t.Repr == "listpairs" {
			return false
		}
		if t.Elem == "Any" {
			return false
		}
		for _, f := range t.Fields {
			if f.Type == "Any" {
				return false
			}
		}
		for _, m := range t.Members {
			if m.Type == "Any" {
				return false
			}
		}
	}
	return true
}

// ReprKind is the data-model kind of the representation of a type.
func (s *Schema) ReprKind(name string) datamodel.Kind {
	switch name {
	case "Bool":
		return datamodel.Kind_Bool
	case "Int":
		return datamodel.Kind_Int
	case "Float":
		return datamodel.Kind_Float
	case "String":
		return datamodel.Kind_String
	case "Bytes":
		return datamodel.Kind_Bytes
	case "Link":
		return datamodel.Kind_Link
	case "Any":
		return datamodel.Kind_Invalid
	}
	t := s.Type(name)
	switch t.Kind {
	case "list":
		return datamodel.Kind_List
	case "map":
		return datamodel.Kind_Map
	case "struct":
		switch t.Repr {
		case "map":
			return datamodel.Kind_Map
		case "tuple", "listpairs":
			return datamodel.Kind_List
		default:
			return datamodel.Kind_String
		}
	case "union":
		switch t.Repr {
		case "keyed":
			return datamodel.Kind_Map
		case "stringprefix":
			return datamodel.Kind_String
		default:
			return datamodel.Kind_Invalid // kinded: depends on the member
		}
	case "enum":
		if t.Repr == "int" {
			return datamodel.Kind_Int
		}
		return datamodel.Kind_String
	}
	return datamodel.Kind_Invalid
}

// StringRepresentable: the representation is always a string free of delimiters other than
// its own (usable inside stringjoin / stringprefix).
func (s *Schema) StringRepresentable(name string) bool {
	if name == "String" {
		return true
	}
	if IsBuiltin(name) {
		return false
	}
	t := s.Type(name)
	return t.Kind == "enum" && t.Repr == "string"
}

// Build constructs the real type system.
func (s *Schema) Build() (ts *schema.TypeSystem, err error) {
	defer func() {
		if r := recover(); r != nil {
			err = fmt.Errorf("PANIC while building the type system: %v", r)
		}
	}()
	ts = new(schema.TypeSystem)
	ts.Init()
	schema.SpawnDefaultBasicTypes(ts)
	for _, t := range s.Types {
		switch t.Kind {
		case "list":
			ts.Accumulate(schema.SpawnList(t.Name, t.Elem, t.ElemNullable))
		case "map":
			kt := "String"
			if t.Key != "" {
				kt = t.Key
			}
			ts.Accumulate(schema.SpawnMap(t.Name, kt, t.Elem, t.ElemNullable))
		case "struct":
			fs := make([]schema.StructField, len(t.Fields))
			renames := map[string]string{}
			for i, f := range t.Fields {
				fs[i] = schema.SpawnStructField(f.Name, f.Type, f.Optional, f.Nullable)
				if f.Rename != "" {
					renames[f.Name] = f.Rename
				}
			}
			var repr schema.StructRepresentation
			switch t.Repr {
			case "map":
				repr = schema.SpawnStructRepresentationMap(renames)
			case "tuple":
				repr = schema.SpawnStructRepresentationTuple()
			case "stringjoin":
				repr = schema.SpawnStructRepresentationStringjoin(t.Delim)
			case "listpairs":
				repr = schema.SpawnStructRepresentationListPairs()
			default:
				return nil, fmt.Errorf("bad struct repr %q", t.Repr)
			}
			ts.Accumulate(schema.SpawnStruct(t.Name, fs, repr))
		case "union":
			names := make([]schema.TypeName, len(t.Members))
			for i, m := range t.Members {
				names[i] = m.Type
			}
			var repr schema.UnionRepresentation
			switch t.Repr {
			case "keyed":
				tbl := map[string]schema.TypeName{}
				for _, m := range t.Members {
					tbl[m.Discr] = m.Type
				}
				repr = schema.SpawnUnionRepresentationKeyed(tbl)
			case "kinded":
				tbl := map[datamodel.Kind]schema.TypeName{}
				for _, m := range t.Members {
					tbl[s.ReprKind(m.Type)] = m.Type
				}
				repr = schema.SpawnUnionRepresentationKinded(tbl)
			case "stringprefix":
				tbl := map[string]schema.TypeName{}
				for _, m := range t.Members {
					tbl[m.Discr] = m.Type
				}
				repr = schema.SpawnUnionRepresentationStringprefix(t.Delim, tbl)
			default:
				return nil, fmt.Errorf("bad union repr %q", t.Repr)
			}
			ts.Accumulate(schema.SpawnUnion(t.Name, names, repr))
		case "enum":
			ms := make([]string, len(t.Enum))
			for i, e := range t.Enum {
				ms[i] = e.Name
			}
			if t.Repr == "int" {
				r := schema.EnumRepresentation_Int{}
				for _, e := range t.Enum {
					r[e.Name] = e.Int
				}
				ts.Accumulate(schema.SpawnEnum(t.Name, ms, r))
			} else {
				r := schema.EnumRepresentation_String{}
				for _, e := range t.Enum {
					r[e.Name] = e.Str
				}
				ts.Accumulate(schema.SpawnEnum(t.Name, ms, r))
			}
		default:
			return nil, fmt.Errorf("bad kind %q", t.Kind)
		}
	}
	if errs := ts.ValidateGraph(); len(errs) > 0 {
		return nil, fmt.Errorf("schema invalid: %v", errs)
	}
	return ts, nil
}

// ---------------------------------------------------------------------------------------
// generator

type GenOpts struct {
	MaxTypes int
	GenOnly  bool // restrict to the code generator's feature set
	// NoAnyInUnion steers around the known finding C08-bindnode-any-union-member
	NoAnyInUnion bool
	NoEnumKeys   bool // maps keyed by String only
}

var delims = []string{":", ",", "|", "/", "--"}

// Draw draws an acyclic schema.
func Draw(t *rapid.T, o GenOpts) Schema {
	var s Schema
	n := rapid.IntRange(1, o.MaxTypes).Draw(t, "ntypes")
	avail := func(pred func(string) bool) []string {
		var out []string
		for _, b := range Builtins {
			if (b != "Any" || !o.GenOnly) && pred(b) {
				out = append(out, b)
			}
		}
		for _, ty := range s.Types {
			if pred(ty.Name) {
				out = append(out, ty.Name)
			}
		}
		return out
	}
	anyType := func(label string) string {
		all := avail(func(string) bool { return true })
		// prefer the recently defined types so that schemas nest
		if len(s.Types) > 0 && rapid.IntRange(0, 2).Draw(t, label+".recent") > 0 {
			return s.Types[rapid.IntRange(max(0, len(s.Types)-3), len(s.Types)-1).Draw(t, label+".r")].Name
		}
		return rapid.SampledFrom(all).Draw(t, label)
	}
	for i := 0; i < n; i++ {
		name := "T" + strconv.Itoa(i)
		kinds := []string{"struct", "struct", "struct", "list", "map", "union", "union"}
		if !o.GenOnly {
			kinds = append(kinds, "enum")
		}
		kind := rapid.SampledFrom(kinds).Draw(t, "kind")
		ty := TypeSpec{Name: name, Kind: kind}
		switch kind {
		case "list", "map":
			ty.Elem = anyType("elem")
			ty.ElemNullable = rapid.Bool().Draw(t, "elemnullable")
			if kind == "map" && !o.NoEnumKeys {
				// a quarter of the maps are keyed by an earlier string-represented enum, when there is one
				var enums []string
				for _, e := range s.Types {
					if e.Kind == "enum" && e.Repr == "string" {
						enums = append(enums, e.Name)
					}
				}
				if len(enums) > 0 && rapid.IntRange(0, 3).Draw(t, "enumkey") == 0 {
					ty.Key = rapid.SampledFrom(enums).Draw(t, "keytype")
				}
			}
		case "enum":
			ty.Repr = rapid.SampledFrom([]string{"string", "int"}).Draw(t, "enumrepr")
			ne := rapid.IntRange(1, 4).Draw(t, "nmembers")
			for j := 0; j < ne; j++ {
				e := EnumSpec{Name: "M" + strconv.Itoa(j), Int: j*3 - 2}
				e.Str = e.Name
				if rapid.Bool().Draw(t, "mapped") {
					e.Str = "v" + strconv.Itoa(j)
				}
				ty.Enum = append(ty.Enum, e)
			}
		case "struct":
			reprs := []string{"map", "map", "map", "tuple", "stringjoin"}
			if !o.GenOnly {
				reprs = append(reprs, "listpairs")
			}
			ty.Repr = rapid.SampledFrom(reprs).Draw(t, "structrepr")
			nf := rapid.IntRange(1, 4).Draw(t, "nfields")
			// field names need not be ASCII: a quarter of the structs the binding alone sees have names that begin
			// with a two-byte letter (the Go field is then "Éa" for "éa")
			initial := "f"
			if !o.GenOnly && rapid.IntRange(0, 3).Draw(t, "nonascii") == 0 {
				initial = "é"
			}
			if ty.Repr == "stringjoin" {
				sr := avail(s.StringRepresentable)
				ty.Delim = rapid.SampledFrom(delims).Draw(t, "delim")
				for j := 0; j < nf; j++ {
					ty.Fields = append(ty.Fields, FieldSpec{Name: initial + string(rune('a'+j)), Type: rapid.SampledFrom(sr).Draw(t, "sjfield")})
				}
				break
			}
			for j := 0; j < nf; j++ {
				f := FieldSpec{Name: initial + string(rune('a'+j)), Type: anyType("ftype")}
				switch rapid.IntRange(0, 5).Draw(t, "maybe") {
				case 0:
					f.Optional = true
				case 1:
					f.Nullable = true
				case 2:
					f.Optional, f.Nullable = true, true
				}
				if ty.Repr == "map" && rapid.IntRange(0, 3).Draw(t, "rename") == 0 {
					f.Rename = "r" + strconv.Itoa(j)
				}
				ty.Fields = append(ty.Fields, f)
			}
			if ty.Repr == "map" && len(ty.Fields) >= 2 && rapid.IntRange(0, 3).Draw(t, "renameclash") == 0 {
				// serial keys that are other fields' type-level names: a swap (fa<->fb) or a chain
				// (fa serialised as "fb", fb as something fresh); the set of serial keys stays unique
				i := rapid.IntRange(0, len(ty.Fields)-1).Draw(t, "clashi")
				j := rapid.IntRange(0, len(ty.Fields)-2).Draw(t, "clashj")
				if j >= i {
					j++
				}
				ty.Fields[i].Rename = ty.Fields[j].Name
				if rapid.Bool().Draw(t, "swap") {
					ty.Fields[j].Rename = ty.Fields[i].Name
				} else {
					ty.Fields[j].Rename = "r" + strconv.Itoa(j)
				}
			}
			if ty.Repr == "tuple" {
				// optional fields only as a trailing run
				seenReq := false
				for j := len(ty.Fields) - 1; j >= 0; j-- {
					if !ty.Fields[j].Optional {
						seenReq = true
					} else if seenReq {
						ty.Fields[j].Optional = false
					}
				}
			}
		case "union":
			ty.Repr = rapid.SampledFrom([]string{"keyed", "keyed", "kinded", "stringprefix"}).Draw(t, "unionrepr")
			switch ty.Repr {
			case "keyed":
				cands := avail(func(n string) bool { return !(o.NoAnyInUnion && n == "Any") })
				nm := rapid.IntRange(1, 3).Draw(t, "nmembers")
				seen := map[string]bool{}
				for j := 0; j < nm; j++ {
					m := rapid.SampledFrom(cands).Draw(t, "member")
					if seen[m] {
						continue
					}
					seen[m] = true
					ty.Members = append(ty.Members, MemberSpec{Type: m, Discr: "d" + strconv.Itoa(j)})
				}
			case "kinded":
				cands := avail(func(n string) bool { return n != "Any" && s.ReprKind(n) != datamodel.Kind_Invalid })
				nm := rapid.IntRange(1, 4).Draw(t, "nmembers")
				seenKind := map[datamodel.Kind]bool{}
				for j := 0; j < nm; j++ {
					m := rapid.SampledFrom(cands).Draw(t, "member")
					if seenKind[s.ReprKind(m)] {
						continue
					}
					seenKind[s.ReprKind(m)] = true
					ty.Members = append(ty.Members, MemberSpec{Type: m})
				}
			default:
				cands := avail(func(n string) bool {
					if s.StringRepresentable(n) {
						return true
					}
					ty := s.Type(n)
					return ty != nil && ty.Kind == "struct" && ty.Repr == "stringjoin"
				})
				ty.Delim = rapid.SampledFrom([]string{":", "", "-", "="}).Draw(t, "delim")
				if o.GenOnly && ty.Delim == "" {
					// the empty delimiter is an artefact of the Go API (the schema language gives full
					// prefixes); the code generator always splits on a delimiter
					ty.Delim = ":"
				}
				nm := rapid.IntRange(1, 3).Draw(t, "nmembers")
				seen := map[string]bool{}
				for j := 0; j < nm; j++ {
					m := rapid.SampledFrom(cands).Draw(t, "member")
					if seen[m] {
						continue
					}
					seen[m] = true
					ty.Members = append(ty.Members, MemberSpec{Type: m, Discr: "p" + strconv.Itoa(j)})
				}
			}
		}
		s.Types = append(s.Types, ty)
	}
	return s
}

// BuildMinimal is Build without the default basic types: only the built-in scalars the schema
// actually refers to (plus String for map keys) are declared, which is what the code generator
// needs (it has no generator for Any and the prelude's Map/List).
func (s *Schema) BuildMinimal() (ts *schema.TypeSystem, err error) {
	defer func() {
		if r := recover(); r != nil {
			err = fmt.Errorf("PANIC while building the type system: %v", r)
		}
	}()
	used := map[string]bool{"String": true}
	for _, t := range s.Types {
		if t.Elem != "" {
			used[t.Elem] = true
		}
		for _, f := range t.Fields {
			used[f.Type] = true
		}
		for _, m := range t.Members {
			used[m.Type] = true
		}
	}
	full, err := s.Build()
	if err != nil {
		return nil, err
	}
	ts = new(schema.TypeSystem)
	ts.Init()
	for _, b := range Builtins {
		if !used[b] {
			continue
		}
		switch b {
		case "Bool":
			ts.Accumulate(schema.SpawnBool("Bool"))
		case "Int":
			ts.Accumulate(schema.SpawnInt("Int"))
		case "Float":
			ts.Accumulate(schema.SpawnFloat("Float"))
		case "String":
			ts.Accumulate(schema.SpawnString("String"))
		case "Bytes":
			ts.Accumulate(schema.SpawnBytes("Bytes"))
		case "Link":
			ts.Accumulate(schema.SpawnLink("Link"))
		case "Any":
			ts.Accumulate(schema.SpawnAny("Any"))
		}
	}
	for _, t := range s.Types {
		ts.Accumulate(schema.Clone(full.TypeByName(t.Name)))
	}
	if errs := ts.ValidateGraph(); len(errs) > 0 {
		return nil, fmt.Errorf("schema invalid: %v", errs)
	}
	return ts, nil
}
