// Package evid collects what a check actually covered (counts, distinct non-trivial cases,
// class histogram, samples), saves failing cases as replay files, and runs rapid properties
// with the tier/seed/shard settings the driver passes through the environment.
package evid

import (
	"runtime/debug"
	"encoding/binary"
	"encoding/json"
	"flag"
	"fmt"
	"hash/fnv"
	"os"
	"path/filepath"
	"sort"
	"strconv"
	"sync"
	"testing"

	"pgregory.net/rapid"
)

// ---------------------------------------------------------------------------------------
// environment

func Tier() string {
	if os.Getenv("VERIF_TIER") == "thorough" {
		return "thorough"
	}
	return "quick"
}

func Thorough() bool { return Tier() == "thorough" }

func envInt(name string, def int) int {
	if s := os.Getenv(name); s != "" {
		if n, err := strconv.Atoi(s); err == nil {
			return n
		}
	}
	return def
}

func Seed() int  { return envInt("VERIF_SEED", 1) }
func Shard() int { return envInt("VERIF_SHARD", 0) }
func NShards() int {
	n := envInt("VERIF_NSHARDS", 1)
	if n < 1 {
		n = 1
	}
	return n
}
func OutDir() string { return os.Getenv("VERIF_OUT") }

// Scale returns the number of cases this process should run for a part whose whole-run
// budget is quick (resp. thorough) cases.
func Scale(quick, thorough int) int {
	// the quick budgets in the parts are the per-change minimum; the quick tier runs a multiple
	// of them (still seconds per property on 8 shards)
	n := quick * envInt("VERIF_QUICK_X", 5)
	if Thorough() {
		// likewise the thorough budgets are a base; the thorough tier runs a multiple (minutes per property on 16 shards)
		n = thorough * envInt("VERIF_THOROUGH_X", 4)
	}
	if m := envInt("VERIF_CASES_PCT", 100); m != 100 {
		n = n * m / 100
	}
	n = (n + NShards() - 1) / NShards()
	if n < 1 {
		n = 1
	}
	return n
}

// RapidSeed is the rapid seed of this shard: never 0 (0 means "random" to rapid).
func RapidSeed(part string) uint64 {
	h := fnv.New64a()
	h.Write([]byte(part))
	s := uint64(Seed())*1000003 + uint64(Shard())*7919 + h.Sum64()%1000 + 1
	if s == 0 {
		s = 1
	}
	return s
}

// ---------------------------------------------------------------------------------------
// recorder

type Rec struct {
	mu        sync.Mutex
	Prop      string
	Part      string
	Rule      string
	evals     int64
	nontriv   map[uint64]struct{}
	classes   map[string]int64
	excluded  map[string]int64
	samples   []json.RawMessage
	maxSample int
	extra     map[string]any
	exhaust   bool
	counted   int64 // non-trivial cases that are distinct by construction (enumerations): counted, not hashed
}

func New(prop, part, rule string) *Rec {
	return &Rec{Prop: prop, Part: part, Rule: rule, nontriv: map[uint64]struct{}{}, classes: map[string]int64{},
		excluded: map[string]int64{}, maxSample: 4, extra: map[string]any{}}
}

func salt(part string, h uint64) uint64 {
	f := fnv.New64a()
	f.Write([]byte(part))
	var b [8]byte
	binary.LittleEndian.PutUint64(b[:], h)
	f.Write(b[:])
	return f.Sum64()
}

// Case records one evaluated case. hash identifies the case; nontrivial is the verdict of
// the part's stated rule.
func (r *Rec) Case(hash uint64, nontrivial bool, classes ...string) {
	r.mu.Lock()
	defer r.mu.Unlock()
	r.evals++
	if nontrivial {
		r.nontriv[salt(r.Part, hash)] = struct{}{}
	}
	for _, c := range classes {
		r.classes[c]++
	}
}

// CaseCounted records a case of an enumeration: distinct by construction, so it is counted
// instead of being hashed into the distinct set.
func (r *Rec) CaseCounted(nontrivial bool, classes ...string) {
	r.mu.Lock()
	defer r.mu.Unlock()
	r.evals++
	if nontrivial {
		r.counted++
	}
	for _, c := range classes {
		r.classes[c]++
	}
}

func (r *Rec) Class(c string) {
	r.mu.Lock()
	r.classes[c]++
	r.mu.Unlock()
}

func (r *Rec) ClassN(c string, n int64) {
	r.mu.Lock()
	r.classes[c] += n
	r.mu.Unlock()
}

func (r *Rec) Excluded(c string) {
	r.mu.Lock()
	r.excluded[c]++
	r.mu.Unlock()
}

func (r *Rec) Extra(k string, v any) {
	r.mu.Lock()
	r.extra[k] = v
	r.mu.Unlock()
}

func (r *Rec) Exhaustive() { r.exhaust = true }

// WantSample says whether another sample would be kept (so callers can skip serialising).
func (r *Rec) WantSample() bool {
	r.mu.Lock()
	defer r.mu.Unlock()
	return len(r.samples) < r.maxSample
}

// Sample keeps up to maxSample cases verbatim. Large samples are dropped.
func (r *Rec) Sample(c any) {
	r.mu.Lock()
	defer r.mu.Unlock()
	if len(r.samples) >= r.maxSample {
		return
	}
	b, err := json.Marshal(c)
	if err != nil || len(b) > 6000 {
		return
	}
	r.samples = append(r.samples, b)
}

type partial struct {
	Prop        string            `json:"property_id"`
	Part        string            `json:"part"`
	Shard       int               `json:"shard"`
	Rule        string            `json:"rule"`
	Evaluations int64             `json:"evaluations"`
	Nontrivial  int               `json:"nontrivial_in_shard"`
	Counted     int64             `json:"nontrivial_counted"`
	Classes     map[string]int64  `json:"classes"`
	Excluded    map[string]int64  `json:"excluded_known"`
	Samples     []json.RawMessage `json:"samples"`
	Extra       map[string]any    `json:"extra,omitempty"`
	Exhaustive  bool              `json:"exhaustive,omitempty"`
	HashFile    string            `json:"hash_file"`
}

// Flush writes the partial evidence of this part for the driver to merge.
func (r *Rec) Flush() {
	dir := OutDir()
	if dir == "" {
		return
	}
	r.mu.Lock()
	defer r.mu.Unlock()
	base := fmt.Sprintf("%s.%s.%d.%d", r.Prop, r.Part, Shard(), os.Getpid())
	hashes := make([]uint64, 0, len(r.nontriv))
	for h := range r.nontriv {
		hashes = append(hashes, h)
	}
	sort.Slice(hashes, func(i, j int) bool { return hashes[i] < hashes[j] })
	hb := make([]byte, 8*len(hashes))
	for i, h := range hashes {
		binary.LittleEndian.PutUint64(hb[8*i:], h)
	}
	hf := filepath.Join(dir, base+".hashes")
	_ = os.WriteFile(hf, hb, 0o644)
	p := partial{Prop: r.Prop, Part: r.Part, Shard: Shard(), Rule: r.Rule, Evaluations: r.evals, Nontrivial: len(hashes), Counted: r.counted,
		Classes: r.classes, Excluded: r.excluded, Samples: r.samples, Extra: r.extra, Exhaustive: r.exhaust, HashFile: hf}
	b, _ := json.MarshalIndent(p, "", " ")
	_ = os.WriteFile(filepath.Join(dir, base+".partial.json"), b, 0o644)
}

// ---------------------------------------------------------------------------------------
// failures and replay

type Failure struct {
	Prop  string          `json:"property_id"`
	Part  string          `json:"part"`
	Error string          `json:"error"`
	Case  json.RawMessage `json:"case"`
}

// SaveFailure overwrites the failure file of this part: during shrinking rapid calls the
// property repeatedly and ends with the minimal failing case, so the last write wins.
func SaveFailure(prop, part string, c any, err error) {
	dir := OutDir()
	if dir == "" {
		return
	}
	cb, merr := json.Marshal(c)
	if merr != nil {
		cb, _ = json.Marshal(fmt.Sprintf("unserialisable case: %v", merr))
	}
	f := Failure{Prop: prop, Part: part, Error: err.Error(), Case: cb}
	b, _ := json.MarshalIndent(f, "", " ")
	_ = os.WriteFile(filepath.Join(dir, fmt.Sprintf("%s.%s.%d.%d.fail.json", prop, part, Shard(), os.Getpid())), b, 0o644)
}

var (
	regMu    sync.Mutex
	registry = map[string]func(json.RawMessage) error{}
)

func key(prop, part string) string { return prop + "." + part }

// Register makes a part replayable from a saved failure file.
func Register[C any](prop, part string, check func(c C, rec *Rec) error) {
	regMu.Lock()
	defer regMu.Unlock()
	registry[key(prop, part)] = func(raw json.RawMessage) error {
		var c C
		if err := json.Unmarshal(raw, &c); err != nil {
			return fmt.Errorf("cannot decode case: %w", err)
		}
		return check(c, New(prop, part, ""))
	}
}

// RegisterRaw registers a replay function that receives the raw case.
func RegisterRaw(prop, part string, fn func(json.RawMessage) error) {
	regMu.Lock()
	defer regMu.Unlock()
	registry[key(prop, part)] = fn
}

// Replay runs the saved case in file through its part's check, bypassing rapid.
// It returns (nil, nil) when the case passes and (nil, err) when it fails;
// the first result is an infrastructure problem.
func Replay(file string) (infra error, failure error) {
	b, err := os.ReadFile(file)
	if err != nil {
		return err, nil
	}
	var f Failure
	if err := json.Unmarshal(b, &f); err != nil {
		return err, nil
	}
	regMu.Lock()
	fn := registry[key(f.Prop, f.Part)]
	regMu.Unlock()
	if fn == nil {
		return fmt.Errorf("no replay function registered for %s", key(f.Prop, f.Part)), nil
	}
	return nil, fn(f.Case)
}

// ---------------------------------------------------------------------------------------
// running a rapid property

// Part describes one generated check: a generator of plain-data cases and a check function.
type Part[C any] struct {
	Prop, Name, Rule string
	Quick, Thorough  int // whole-run case budgets per tier
	Gen              func(t *rapid.T) C
	Check            func(c C, rec *Rec) error
}

// Run drives the part with rapid under the driver's tier/seed/shard settings.
func (p Part[C]) Run(t *testing.T) {
	rec := New(p.Prop, p.Name, p.Rule)
	defer rec.Flush()
	n := Scale(p.Quick, p.Thorough)
	_ = flag.Set("rapid.checks", strconv.Itoa(n))
	_ = flag.Set("rapid.seed", strconv.FormatUint(RapidSeed(p.Name), 10))
	if os.Getenv("VERIF_SHRINKTIME") != "" {
		_ = flag.Set("rapid.shrinktime", os.Getenv("VERIF_SHRINKTIME"))
	}
	_ = flag.Set("rapid.nofailfile", "true")
	rapid.Check(t, func(rt *rapid.T) {
		c := p.Gen(rt)
		if err := p.Check(c, rec); err != nil {
			SaveFailure(p.Prop, p.Name, c, err)
			rt.Fatalf("%s.%s: %v", p.Prop, p.Name, err)
		}
	})
}

// Reg registers the part for replay (call from init or from the test's start).
func (p Part[C]) Reg() Part[C] {
	Register(p.Prop, p.Name, p.Check)
	return p
}

// Guard runs f and converts a panic into an error.
func Guard(what string, f func() error) (err error) {
	defer func() {
		if r := recover(); r != nil {
			err = fmt.Errorf("PANIC in %s: %v", what, r)
			if os.Getenv("VERIF_STACK") != "" {
				err = fmt.Errorf("%w\n%s", err, debug.Stack())
			}
		}
	}()
	return f()
}
