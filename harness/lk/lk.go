// Package lk holds the linking helpers shared by C05/C06 (and the graph builders): link
// prototype specs as plain data, an independent hash + CID construction (stdlib crypto and
// hand-built CID bytes), codec value domains and link systems over several storages.
package lk

import (
	"crypto/md5"
	"crypto/sha1"
	"crypto/sha256"
	"crypto/sha512"
	"fmt"
	"github.com/ipld/go-ipld-prime/codec"

	"github.com/ipfs/go-cid"
	_ "github.com/ipld/go-ipld-prime/codec/cbor"
	"github.com/ipld/go-ipld-prime/codec/dagcbor"
	"github.com/ipld/go-ipld-prime/codec/dagjson"
	_ "github.com/ipld/go-ipld-prime/codec/json"
	_ "github.com/ipld/go-ipld-prime/codec/raw"
	"github.com/ipld/go-ipld-prime/datamodel"
	"github.com/ipld/go-ipld-prime/linking"
	cidlink "github.com/ipld/go-ipld-prime/linking/cid"
	"github.com/ipld/go-ipld-prime/multicodec"
	mhcore "github.com/multiformats/go-multihash/core"

	"verif/val"
)

// LP is a link prototype as plain data.
type LP struct {
	Version  uint64 `json:"version"`
	Codec    uint64 `json:"codec"`
	MhType   uint64 `json:"mh_type"`
	MhLength int    `json:"mh_length"` // -1 = full digest
}

func (l LP) Proto() cidlink.LinkPrototype {
	return cidlink.LinkPrototype{Prefix: cid.Prefix{Version: l.Version, Codec: l.Codec, MhType: l.MhType, MhLength: l.MhLength}}
}

func (l LP) String() string {
	return fmt.Sprintf("v%d/codec=0x%x/mh=0x%x/len=%d", l.Version, l.Codec, l.MhType, l.MhLength)
}

const (
	CodecDagCbor = 0x71
	CodecDagJson = 0x0129
	CodecCbor    = 0x51
	CodecJson    = 0x0200
	CodecRaw     = 0x55
	CodecDagPb   = 0x70 // only through the private registry, where it is an alias of dag-cbor
)

var Codecs = []uint64{CodecDagCbor, CodecDagJson, CodecCbor, CodecJson, CodecRaw}

// Hash is a multihash function computed independently of go-multihash.
type Hash struct {
	Code uint64
	Size int // digest size; -1 for identity
	Sum  func(b []byte) []byte
}

var Hashes = []Hash{
	{0x12, 32, func(b []byte) []byte { s := sha256.Sum256(b); return s[:] }},
	{0x13, 64, func(b []byte) []byte { s := sha512.Sum512(b); return s[:] }},
	{0x11, 20, func(b []byte) []byte { s := sha1.Sum(b); return s[:] }},
	{0xd5, 16, func(b []byte) []byte { s := md5.Sum(b); return s[:] }},
	{0x1013, 28, func(b []byte) []byte { s := sha256.Sum224(b); return s[:] }},
	{0x20, 48, func(b []byte) []byte { s := sha512.Sum384(b); return s[:] }},
	{0x1014, 28, func(b []byte) []byte { s := sha512.Sum512_224(b); return s[:] }},
	{0x1015, 32, func(b []byte) []byte { s := sha512.Sum512_256(b); return s[:] }},
	{0x56, 32, func(b []byte) []byte { s := sha256.Sum256(b); t := sha256.Sum256(s[:]); return t[:] }},
	{0x00, -1, func(b []byte) []byte { return append([]byte{}, b...) }},
}

func HashByCode(code uint64) (Hash, bool) {
	for _, h := range Hashes {
		if h.Code == code {
			return h, true
		}
	}
	return Hash{}, false
}

func init() {
	for _, h := range Hashes {
		if _, err := mhcore.GetHasher(h.Code); err != nil {
			panic(fmt.Sprintf("hash 0x%x is not registered in go-multihash core: %v", h.Code, err))
		}
	}
}

// ExpectedCid builds, by hand, the binary CID that lp must give for block bytes b.
func ExpectedCid(lp LP, b []byte) (string, error) {
	h, ok := HashByCode(lp.MhType)
	if !ok {
		return "", fmt.Errorf("no reference hash for 0x%x", lp.MhType)
	}
	d := h.Sum(b)
	if lp.MhLength >= 0 && h.Size >= 0 {
		if lp.MhLength > len(d) {
			return "", fmt.Errorf("MhLength %d beyond digest size", lp.MhLength)
		}
		d = d[:lp.MhLength]
	}
	if lp.Version == 0 {
		return val.MakeCidV0(d), nil
	}
	return val.MakeCidV1(lp.Codec, lp.MhType, d), nil
}

// DigestOK reports whether bytes b hash to the digest inside the binary CID c (by the
// reference hash functions): the definition of "legitimate data" for a link.
func DigestOK(cidBytes string, b []byte) (bool, error) {
	c, err := cid.Cast([]byte(cidBytes))
	if err != nil {
		return false, err
	}
	p := c.Prefix()
	lp := LP{Version: p.Version, Codec: p.Codec, MhType: p.MhType, MhLength: p.MhLength}
	want, err := ExpectedCid(lp, b)
	if err != nil {
		return false, err
	}
	return want == cidBytes, nil
}

// PrivateRegistry maps the five codecs plus dag-pb (0x70, as an alias of dag-cbor, so that
// CIDv0 prototypes can be exercised).
func PrivateRegistry() multicodec.Registry { return PrivateRegistryFilled(0) }

// PrivateRegistryFilled fills the registry in one of the orders a program may use: 0 = encoder then decoder,
// codec by codec; 1 = every decoder, then every encoder; 2 = every encoder, then every decoder; 3 = decoder then
// encoder, codec by codec; for order/4 odd every indicator was registered before with another codec's functions.
// What is registered in the end is the same in every case.
func PrivateRegistryFilled(order int) multicodec.Registry {
	var r multicodec.Registry
	type reg struct {
		c uint64
		e codec.Encoder
		d codec.Decoder
	}
	var regs []reg
	for _, c := range Codecs {
		e, err := multicodec.LookupEncoder(c)
		if err != nil {
			panic(err)
		}
		d, err := multicodec.LookupDecoder(c)
		if err != nil {
			panic(err)
		}
		regs = append(regs, reg{c, e, d})
	}
	regs = append(regs, reg{CodecDagPb, dagcbor.Encode, dagcbor.Decode})
	if order/4%2 == 1 {
		// every indicator is first registered with another codec's functions and then registered again:
		// registering again replaces
		for i, x := range regs {
			other := regs[(i+1)%len(regs)]
			r.RegisterEncoder(x.c, other.e)
			r.RegisterDecoder(x.c, other.d)
		}
	}
	switch order % 4 {
	case 1:
		for _, x := range regs {
			r.RegisterDecoder(x.c, x.d)
		}
		for _, x := range regs {
			r.RegisterEncoder(x.c, x.e)
		}
	case 2:
		for _, x := range regs {
			r.RegisterEncoder(x.c, x.e)
		}
		for _, x := range regs {
			r.RegisterDecoder(x.c, x.d)
		}
	case 3:
		for _, x := range regs {
			r.RegisterDecoder(x.c, x.d)
			r.RegisterEncoder(x.c, x.e)
		}
	default:
		for _, x := range regs {
			r.RegisterEncoder(x.c, x.e)
			r.RegisterDecoder(x.c, x.d)
		}
	}
	return r
}

var _ = dagjson.Encode

// LinkSystem returns a link system using the default or the private registry.
func LinkSystem(private bool) linking.LinkSystem { return LinkSystemFilled(private, 0) }

// LinkSystemFilled: as LinkSystem, the private registry filled in the given order.
func LinkSystemFilled(private bool, order int) linking.LinkSystem {
	if private {
		return cidlink.LinkSystemUsingMulticodecRegistry(PrivateRegistryFilled(order))
	}
	return cidlink.DefaultLinkSystem()
}

// CodecProfile is the value domain of a codec.
func CodecProfile(codec uint64) val.Profile {
	switch codec {
	case CodecDagCbor, CodecDagPb:
		return val.Profile{MaxDepth: 3, MaxWidth: 4, Uint: true, Float: true, Bytes: true, Links: true, Null: true}
	case CodecCbor:
		return val.Profile{MaxDepth: 3, MaxWidth: 4, Uint: true, Float: true, Bytes: true, Null: true}
	case CodecDagJson:
		return val.Profile{MaxDepth: 3, MaxWidth: 4, Float: true, Bytes: true, Links: true, Null: true, JSONSafe: true, UTF8Only: true}
	case CodecJson:
		return val.Profile{MaxDepth: 3, MaxWidth: 4, Float: true, Null: true, JSONSafe: true, UTF8Only: true}
	}
	return val.Profile{}
}

// Sorted reports whether the codec canonicalises map order, and with which order.
func CodecOrder(codec uint64) func(a, b string) bool {
	switch codec {
	case CodecDagCbor, CodecDagPb:
		return val.LessLenFirst
	case CodecDagJson:
		return val.LessBytewise
	}
	return nil
}

// LinkOf converts a binary CID to a link.
func LinkOf(cidBytes string) (datamodel.Link, error) {
	c, err := cid.Cast([]byte(cidBytes))
	if err != nil {
		return nil, err
	}
	return cidlink.Link{Cid: c}, nil
}
